package sched

// Mutex replaces sync.Mutex / xsync.Mutex. The zero value is an unlocked mutex.
type Mutex struct {
	held bool
}

func must() *S {
	if cur == nil {
		panic("VERIF-INFRA: sched object used outside sched.Run")
	}
	return cur
}

func (m *Mutex) Lock() {
	s := must()
	op := Op{OpLock, m}
	t := s.yield(op)
	m.held = true
	s.did(t, op)
}

func (m *Mutex) TryLock() bool {
	s := must()
	op := Op{OpTryLock, m}
	t := s.yield(op)
	ok := !m.held
	if ok {
		m.held = true
	}
	s.did(t, op)
	return ok
}

func (m *Mutex) Unlock() {
	s := must()
	op := Op{OpUnlock, m}
	t := s.yield(op)
	if !m.held {
		panic("sync: unlock of unlocked mutex")
	}
	m.held = false
	s.did(t, op)
}

// Held is for harness observation only (no yield).
func (m *Mutex) Held() bool { return m.held }

// Cond replaces sync.Cond. Signal wakes one waiter chosen by the schedule (the
// documentation of sync.Cond promises no order), Broadcast wakes all; there are no
// spurious wake-ups.
type Cond struct {
	L       *Mutex
	waiters []*Thread
}

func NewCond(l *Mutex) *Cond { return &Cond{L: l} }

func (c *Cond) Wait() {
	s := must()
	op := Op{OpCondWait, c}
	t := s.yield(op)
	if t == nil {
		panic("VERIF-INFRA: Cond.Wait during setup")
	}
	if !c.L.held {
		panic("sync: unlock of unlocked mutex")
	}
	s.did(t, op) // observed while the mutex is still held
	c.L.held = false
	t.signalled = false
	c.waiters = append(c.waiters, t)
	op2 := Op{OpCondReacquire, c}
	s.yield(op2)
	c.L.held = true
	s.did(t, op2)
}

func (c *Cond) Signal() {
	s := must()
	op := Op{OpSignal, c}
	t := s.yield(op)
	if n := len(c.waiters); n > 0 {
		i := 0
		if t != nil && t.aux < n {
			i = t.aux
		}
		w := c.waiters[i]
		c.waiters = append(c.waiters[:i], c.waiters[i+1:]...)
		w.signalled = true
	}
	s.did(t, op)
}

func (c *Cond) Broadcast() {
	s := must()
	op := Op{OpBroadcast, c}
	t := s.yield(op)
	for _, w := range c.waiters {
		w.signalled = true
	}
	c.waiters = c.waiters[:0]
	s.did(t, op)
}

// Waiters is for harness observation only.
func (c *Cond) Waiters() int { return len(c.waiters) }

// Uint32 replaces atomic.Uint32.
type Uint32 struct{ v uint32 }

func (u *Uint32) Load() uint32 {
	s := must()
	op := Op{OpLoad, u}
	t := s.yield(op)
	s.did(t, op)
	return u.v
}

func (u *Uint32) Store(v uint32) {
	s := must()
	op := Op{OpStore, u}
	t := s.yield(op)
	u.v = v
	s.did(t, op)
}

func (u *Uint32) CompareAndSwap(old, new uint32) bool {
	s := must()
	op := Op{OpCAS, u}
	t := s.yield(op)
	ok := u.v == old
	if ok {
		u.v = new
	}
	s.did(t, op)
	return ok
}

func (u *Uint32) Add(d uint32) uint32 {
	s := must()
	op := Op{OpAdd, u}
	t := s.yield(op)
	u.v += d
	s.did(t, op)
	return u.v
}

func (u *Uint32) Swap(v uint32) uint32 {
	s := must()
	op := Op{OpSwap, u}
	t := s.yield(op)
	old := u.v
	u.v = v
	s.did(t, op)
	return old
}

// Peek is for harness observation only.
func (u *Uint32) Peek() uint32 { return u.v }

// Int32 replaces atomic.Int32.
type Int32 struct{ u Uint32 }

func (i *Int32) Load() int32   { return int32(i.u.Load()) }
func (i *Int32) Store(v int32) { i.u.Store(uint32(v)) }
func (i *Int32) CompareAndSwap(old, new int32) bool {
	return i.u.CompareAndSwap(uint32(old), uint32(new))
}
func (i *Int32) Add(d int32) int32  { return int32(i.u.Add(uint32(d))) }
func (i *Int32) Swap(v int32) int32 { return int32(i.u.Swap(uint32(v))) }

// Bool replaces atomic.Bool.
type Bool struct{ u Uint32 }

func b2u(b bool) uint32 {
	if b {
		return 1
	}
	return 0
}
func (b *Bool) Load() bool   { return b.u.Load() != 0 }
func (b *Bool) Store(v bool) { b.u.Store(b2u(v)) }
func (b *Bool) CompareAndSwap(old, new bool) bool {
	return b.u.CompareAndSwap(b2u(old), b2u(new))
}
func (b *Bool) Swap(v bool) bool { return b.u.Swap(b2u(v)) != 0 }

// Chan replaces a buffered `chan struct{}` (capacity >= 1; elements carry no data).
type Chan struct{ n, cap int }

func NewChan(capacity int) *Chan {
	if capacity < 1 {
		panic("VERIF-INFRA: sched.Chan supports buffered channels only")
	}
	return &Chan{cap: capacity}
}

func chk(c *Chan) {
	if c == nil {
		panic("VERIF-INFRA: operation on nil sched.Chan (a nil channel blocks forever)")
	}
}

func (c *Chan) Send() {
	chk(c)
	s := must()
	op := Op{OpSend, c}
	t := s.yield(op)
	c.n++
	s.did(t, op)
}

func (c *Chan) Recv() {
	chk(c)
	s := must()
	op := Op{OpRecv, c}
	t := s.yield(op)
	c.n--
	s.did(t, op)
}

// TrySend is `select { case c <- struct{}{}: (true) default: (false) }`.
func (c *Chan) TrySend() bool {
	chk(c)
	s := must()
	op := Op{OpTrySend, c}
	t := s.yield(op)
	ok := c.n < c.cap
	if ok {
		c.n++
	}
	s.did(t, op)
	return ok
}

// TryRecv is `select { case <-c: (true) default: (false) }`.
func (c *Chan) TryRecv() bool {
	chk(c)
	s := must()
	op := Op{OpTryRecv, c}
	t := s.yield(op)
	ok := c.n > 0
	if ok {
		c.n--
	}
	s.did(t, op)
	return ok
}

// Len is for harness observation only.
func (c *Chan) Len() int { return c.n }

// Once replaces sync.Once: Do blocks other callers until the first call's f has
// returned. A Do on a completed Once is not a yield point (the done flag is monotone,
// the call has no effect and nothing can observe it).
type Once struct{ state int } // 0 new, 1 running, 2 done

func (o *Once) Do(f func()) {
	if o.state == 2 {
		return
	}
	s := must()
	op := Op{OpOnce, o}
	t := s.yield(op)
	if o.state == 2 {
		return
	}
	o.state = 1
	s.did(t, op)
	defer func() { o.state = 2 }()
	f()
}

// Yield is a pure scheduling point (models "this section takes time").
func Yield() {
	s := must()
	op := Op{OpYield, nil}
	t := s.yield(op)
	s.did(t, op)
}
