package sched

import "fmt"

// ExhaustStats describes one exhaustive enumeration of a choice tree.
type ExhaustStats struct {
	Schedules   int64 // complete executions = leaves of the choice tree
	States      int64 // distinct schedule prefixes visited (nodes of the schedule tree incl. root)
	Transitions int64 // distinct (prefix, next step) pairs = edges of the schedule tree
	Deadlocks   int64
	MaxDepth    int
	Complete    bool // the whole tree was enumerated (no failure, no limit hit)
}

// Exhaust enumerates every choice sequence of run depth-first (stateless search by
// re-execution). run must be deterministic given the choices. It stops at the first
// non-OK result, which is returned, or after limit schedules (Complete=false).
func Exhaust(limit int64, run func(choose func(n int) int) *Result) (ExhaustStats, *Result) {
	type ch struct{ n, c int }
	var stack []ch
	var st ExhaustStats
	st.States = 1
	for {
		pos := 0
		diverge := len(stack) - 1 // index of the choice that was just incremented
		res := run(func(n int) int {
			if pos < len(stack) {
				if stack[pos].n != n {
					panic(fmt.Sprintf("VERIF-INFRA: nondeterministic execution: choice %d had %d alternatives, now %d", pos, stack[pos].n, n))
				}
				c := stack[pos].c
				pos++
				return c
			}
			stack = append(stack, ch{n, 0})
			pos++
			return 0
		})
		if pos < len(stack) && res.Kind == OK {
			panic("VERIF-INFRA: nondeterministic execution: fewer choices than in the previous run with the same prefix")
		}
		stack = stack[:pos]
		st.Schedules++
		newEdges := int64(res.Steps)
		if diverge >= 0 && diverge < len(res.ChoiceStep) {
			newEdges = int64(res.Steps) - int64(res.ChoiceStep[diverge])
		}
		st.Transitions += newEdges
		st.States += newEdges
		if res.Steps > st.MaxDepth {
			st.MaxDepth = res.Steps
		}
		if res.Deadlock {
			st.Deadlocks++
		}
		if res.Kind != OK {
			return st, res
		}
		for len(stack) > 0 && stack[len(stack)-1].c == stack[len(stack)-1].n-1 {
			stack = stack[:len(stack)-1]
		}
		if len(stack) == 0 {
			st.Complete = true
			return st, nil
		}
		stack[len(stack)-1].c++
		if limit > 0 && st.Schedules >= limit {
			return st, nil
		}
	}
}

// Replay returns a chooser that replays the given choices and then always picks 0.
func Replay(choices []int32) func(n int) int {
	i := 0
	return func(n int) int {
		if i < len(choices) {
			c := int(choices[i])
			i++
			if c < n {
				return c
			}
			return n - 1
		}
		return 0
	}
}

// Assign spreads enumeration jobs with the given cost estimates over n shards (longest
// processing time first, deterministic) and returns the indices of shard's jobs.
func Assign(est []int64, shard, n int) []int {
	if n <= 1 {
		out := make([]int, len(est))
		for i := range out {
			out[i] = i
		}
		return out
	}
	idx := make([]int, len(est))
	for i := range idx {
		idx[i] = i
	}
	// insertion sort by descending estimate, stable
	for i := 1; i < len(idx); i++ {
		for j := i; j > 0 && est[idx[j]] > est[idx[j-1]]; j-- {
			idx[j], idx[j-1] = idx[j-1], idx[j]
		}
	}
	load := make([]int64, n)
	var mine []int
	for _, i := range idx {
		best := 0
		for s := 1; s < n; s++ {
			if load[s] < load[best] {
				best = s
			}
		}
		load[best] += est[i] + 1
		if best == shard {
			mine = append(mine, i)
		}
	}
	return mine
}
