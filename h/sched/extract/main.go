// Command extract copies the small concurrent primitives of the repository under test
// into a generated package, swapping ONLY their synchronisation types and operations
// for the schedule-owning ones of verif/h/sched. Everything else is printed from the
// repository's own syntax tree, so the code that runs under the scheduler is the
// repository's code.
//
//	extract -repo <repo> -out <dir> [-pkg x] <kind>...
//
// kinds (each writes <dir>/<kind>_gen.go):
//
//	ring      pkg/kgo/ring.go, whole file
//	workloop  pkg/kgo/atomic_maybe_work.go: the const block, type workLoop and its methods
//	gate      pkg/kgo/consumer.go: the poll/rebalance gate methods of *consumer (found by
//	          name, plus every *consumer method they call) and a struct `consumer` made of
//	          exactly the fields those methods touch
//	xsync     pkg/kgo/internal/xsync/synctest_mutex.go, whole file (build constraint dropped)
//
// Rewrites: xsync.Mutex, sync.Mutex -> sched.Mutex; sync.Cond, sync.NewCond ->
// sched.Cond, sched.NewCond; atomic.Uint32/Int32/Bool -> sched.*; sync.Once -> sched.Once;
// and in the xsync file `chan struct{}` -> *sched.Chan, make(chan struct{}, n) ->
// sched.NewChan(n), `c <- struct{}{}` -> c.Send(), `<-c` -> c.Recv(), and a select
// with one communication clause and a default clause -> if c.TrySend()/c.TryRecv()
// {clause body} else {default body}.
//
// Anything else that synchronises (another sync/atomic type, another channel shape, a
// go statement outside the known one) makes the command fail: the driver then reports an
// infrastructure problem (exit 2, "file changed shape"), never a violation. So does a
// missing expected function, and so does generated code that does not compile.
package main

import (
	"bytes"
	"flag"
	"fmt"
	"go/ast"
	"go/format"
	"go/parser"
	"go/printer"
	"go/token"
	"os"
	"path/filepath"
	"sort"
	"strconv"
	"strings"
)

const schedPath = "verif/h/sched"

func die(f string, a ...any) {
	fmt.Fprintf(os.Stderr, "extract: "+f+"\n", a...)
	os.Exit(1)
}

var typeMap = map[string]string{ // "pkg.Name" -> sched name
	"xsync.Mutex":   "Mutex",
	"sync.Mutex":    "Mutex",
	"sync.Cond":     "Cond",
	"sync.NewCond":  "NewCond",
	"sync.Once":     "Once",
	"atomic.Uint32": "Uint32",
	"atomic.Int32":  "Int32",
	"atomic.Bool":   "Bool",
}

// leftovers that do not synchronise
var allowedLeft = map[string]bool{"sync.Locker": true}

type job struct {
	fset     *token.FileSet
	file     *ast.File
	src      string
	rewrites map[string]int
	chans    bool // rewrite channel operations
	allowGo  int  // number of go statements tolerated
}

func parse(path string) *job {
	fset := token.NewFileSet()
	f, err := parser.ParseFile(fset, path, nil, parser.ParseComments|parser.SkipObjectResolution)
	if err != nil {
		die("parse %s: %v (file changed shape?)", path, err)
	}
	return &job{fset: fset, file: f, src: path, rewrites: map[string]int{}}
}

func sel(x, name string, pos token.Pos) *ast.SelectorExpr {
	return &ast.SelectorExpr{X: &ast.Ident{NamePos: pos, Name: x}, Sel: &ast.Ident{NamePos: pos, Name: name}}
}

func isEmptyStructChan(e ast.Expr) bool {
	c, ok := e.(*ast.ChanType)
	if !ok || c.Dir != ast.SEND|ast.RECV {
		return false
	}
	st, ok := c.Value.(*ast.StructType)
	return ok && (st.Fields == nil || len(st.Fields.List) == 0)
}

func isEmptyStructLit(e ast.Expr) bool {
	cl, ok := e.(*ast.CompositeLit)
	if !ok || len(cl.Elts) != 0 {
		return false
	}
	st, ok := cl.Type.(*ast.StructType)
	return ok && (st.Fields == nil || len(st.Fields.List) == 0)
}

func (j *job) call(recv ast.Expr, method string) *ast.CallExpr {
	j.rewrites["chan:"+method]++
	return &ast.CallExpr{Fun: &ast.SelectorExpr{X: recv, Sel: &ast.Ident{NamePos: recv.End(), Name: method}}, Lparen: recv.End(), Rparen: recv.End()}
}

// commCall turns a communication statement on an empty-struct channel into the
// matching sched.Chan method call (blocking or try form).
func (j *job) commCall(s ast.Stmt, try bool) *ast.CallExpr {
	switch s := s.(type) {
	case *ast.SendStmt:
		if !isEmptyStructLit(s.Value) {
			die("%s: send of something other than struct{}{} (file changed shape?)", j.fset.Position(s.Pos()))
		}
		if try {
			return j.call(s.Chan, "TrySend")
		}
		return j.call(s.Chan, "Send")
	case *ast.ExprStmt:
		if u, ok := s.X.(*ast.UnaryExpr); ok && u.Op == token.ARROW {
			if try {
				return j.call(u.X, "TryRecv")
			}
			return j.call(u.X, "Recv")
		}
	}
	return nil
}

func (j *job) rewriteStmt(s ast.Stmt) ast.Stmt {
	switch s := s.(type) {
	case *ast.SendStmt:
		return &ast.ExprStmt{X: j.commCall(s, false)}
	case *ast.ExprStmt:
		if c := j.commCall(s, false); c != nil {
			return &ast.ExprStmt{X: c}
		}
	case *ast.SelectStmt:
		var comm, def *ast.CommClause
		for _, c := range s.Body.List {
			cc := c.(*ast.CommClause)
			if cc.Comm == nil {
				def = cc
			} else if comm == nil {
				comm = cc
			} else {
				die("%s: select with more than one communication clause is not supported (file changed shape?)", j.fset.Position(s.Pos()))
			}
		}
		if comm == nil || def == nil {
			die("%s: only select {one case; default} is supported (file changed shape?)", j.fset.Position(s.Pos()))
		}
		c := j.commCall(comm.Comm, true)
		if c == nil {
			die("%s: unsupported communication clause (file changed shape?)", j.fset.Position(comm.Pos()))
		}
		j.rewrites["select->if"]++
		is := &ast.IfStmt{If: s.Select, Cond: c, Body: &ast.BlockStmt{Lbrace: comm.Colon, List: comm.Body, Rbrace: def.Case}}
		if len(def.Body) > 0 {
			is.Else = &ast.BlockStmt{Lbrace: def.Colon, List: def.Body, Rbrace: s.Body.Rbrace}
		}
		return is
	}
	return s
}

func (j *job) rewriteExpr(e ast.Expr) ast.Expr {
	if c, ok := e.(*ast.CallExpr); ok {
		if id, ok := c.Fun.(*ast.Ident); ok && id.Name == "make" && len(c.Args) >= 1 && isEmptyStructChan(c.Args[0]) {
			j.rewrites["make(chan)->NewChan"]++
			args := c.Args[1:]
			if len(args) == 0 {
				args = []ast.Expr{&ast.BasicLit{ValuePos: c.Rparen, Kind: token.INT, Value: "0"}}
			}
			return &ast.CallExpr{Fun: sel("sched", "NewChan", c.Pos()), Lparen: c.Lparen, Args: args, Rparen: c.Rparen}
		}
	}
	if isEmptyStructChan(e) {
		j.rewrites["chan struct{}->*sched.Chan"]++
		return &ast.StarExpr{Star: e.Pos(), X: sel("sched", "Chan", e.Pos())}
	}
	return e
}

// rewrite applies the synchronisation rewrites below root, in place.
func (j *job) rewrite(root ast.Node) {
	ast.Inspect(root, func(n ast.Node) bool {
		switch n := n.(type) {
		case *ast.SelectorExpr:
			if x, ok := n.X.(*ast.Ident); ok {
				if to, ok := typeMap[x.Name+"."+n.Sel.Name]; ok {
					j.rewrites[x.Name+"."+n.Sel.Name+"->sched."+to]++
					x.Name, n.Sel.Name = "sched", to
				}
			}
		}
		if !j.chans {
			return true
		}
		switch n := n.(type) {
		case *ast.BlockStmt:
			for i := range n.List {
				n.List[i] = j.rewriteStmt(n.List[i])
			}
		case *ast.CaseClause:
			for i := range n.Body {
				n.Body[i] = j.rewriteStmt(n.Body[i])
			}
		case *ast.CommClause:
			for i := range n.Body {
				n.Body[i] = j.rewriteStmt(n.Body[i])
			}
		case *ast.Field:
			n.Type = j.rewriteExpr(n.Type)
		case *ast.ValueSpec:
			if n.Type != nil {
				n.Type = j.rewriteExpr(n.Type)
			}
			for i := range n.Values {
				n.Values[i] = j.rewriteExpr(n.Values[i])
			}
		case *ast.AssignStmt:
			for i := range n.Rhs {
				n.Rhs[i] = j.rewriteExpr(n.Rhs[i])
			}
		case *ast.KeyValueExpr:
			n.Value = j.rewriteExpr(n.Value)
		}
		return true
	})
}

// validate fails on any synchronisation construct the rewrite did not cover.
func (j *job) validate(root ast.Node) {
	gos := 0
	ast.Inspect(root, func(n ast.Node) bool {
		pos := func() token.Position { return j.fset.Position(n.Pos()) }
		switch n := n.(type) {
		case *ast.SelectorExpr:
			if x, ok := n.X.(*ast.Ident); ok {
				switch x.Name {
				case "sync", "atomic", "xsync", "synctest":
					if !allowedLeft[x.Name+"."+n.Sel.Name] {
						die("%s: unsupported synchronisation construct %s.%s (file changed shape?)", pos(), x.Name, n.Sel.Name)
					}
				}
			}
		case *ast.ChanType:
			die("%s: unsupported channel type (file changed shape?)", pos())
		case *ast.SendStmt:
			die("%s: unsupported channel send (file changed shape?)", pos())
		case *ast.UnaryExpr:
			if n.Op == token.ARROW {
				die("%s: unsupported channel receive (file changed shape?)", pos())
			}
		case *ast.SelectStmt:
			die("%s: unsupported select (file changed shape?)", pos())
		case *ast.RangeStmt:
			// ranging over a channel cannot be told apart syntactically; channels are
			// rejected above by type, which is enough here
		case *ast.GoStmt:
			gos++
			if gos > j.allowGo {
				die("%s: unsupported go statement (file changed shape?)", pos())
			}
		}
		return true
	})
}

func importLocal(im *ast.ImportSpec) (local, path string) {
	p, err := strconv.Unquote(im.Path.Value)
	if err != nil {
		die("bad import %s", im.Path.Value)
	}
	local = filepath.Base(p)
	if im.Name != nil {
		local = im.Name.Name
	}
	return local, p
}

func usedPackages(roots ...ast.Node) map[string]bool {
	used := map[string]bool{}
	for _, r := range roots {
		ast.Inspect(r, func(n ast.Node) bool {
			if s, ok := n.(*ast.SelectorExpr); ok {
				if x, ok := s.X.(*ast.Ident); ok {
					used[x.Name] = true
				}
			}
			return true
		})
	}
	return used
}

func (j *job) header(what string) string {
	rel := j.src
	if i := strings.Index(rel, "/pkg/"); i >= 0 {
		rel = rel[i+1:]
	}
	var keys []string
	for k, v := range j.rewrites {
		keys = append(keys, fmt.Sprintf("%s x%d", k, v))
	}
	sort.Strings(keys)
	return fmt.Sprintf("// Code generated by verif/h/sched/extract from %s (%s); DO NOT EDIT.\n// Only synchronisation types/operations were rewritten: %s.\n\n", rel, what, strings.Join(keys, ", "))
}

func finish(out string, src []byte) {
	b, err := format.Source(src)
	if err != nil {
		die("generated source for %s does not parse: %v\n%s", out, err, src)
	}
	if err := os.WriteFile(out, b, 0o644); err != nil {
		die("%v", err)
	}
}

// wholeFile rewrites a complete file. keep, if non-nil, filters top-level declarations.
func wholeFile(j *job, pkg, out, what string, keep func(ast.Decl) bool, need []string) {
	f := j.file
	f.Name.Name = pkg
	// drop build constraints (the generated package is built without the repo's tags)
	var cgs []*ast.CommentGroup
	for _, cg := range f.Comments {
		if cg.End() < f.Package && strings.HasPrefix(cg.List[0].Text, "//go:build") {
			continue
		}
		cgs = append(cgs, cg)
	}
	f.Comments = cgs
	if keep != nil {
		var ds []ast.Decl
		for _, d := range f.Decls {
			if gd, ok := d.(*ast.GenDecl); ok && gd.Tok == token.IMPORT {
				ds = append(ds, d)
				continue
			}
			if keep(d) {
				ds = append(ds, d)
				continue
			}
			// drop the comments that belong to a removed declaration
			var cs []*ast.CommentGroup
			for _, cg := range f.Comments {
				if cg.End() < d.Pos() || cg.Pos() > d.End() {
					if doc := declDoc(d); doc != nil && cg == doc {
						continue
					}
					cs = append(cs, cg)
				}
			}
			f.Comments = cs
		}
		f.Decls = ds
	}
	have := map[string]bool{}
	for _, d := range f.Decls {
		if fd, ok := d.(*ast.FuncDecl); ok {
			have[fd.Name.Name] = true
		}
		if gd, ok := d.(*ast.GenDecl); ok && gd.Tok == token.TYPE {
			for _, s := range gd.Specs {
				have[s.(*ast.TypeSpec).Name.Name] = true
			}
		}
	}
	for _, n := range need {
		if !have[n] {
			die("%s: expected declaration %q not found (file changed shape?)", j.src, n)
		}
	}
	j.rewrite(f)
	j.validate(f)
	if len(j.rewrites) == 0 {
		die("%s: nothing to rewrite (file changed shape?)", j.src)
	}
	// imports: drop unused, add sched
	var nonImport []ast.Node
	for _, d := range f.Decls {
		if gd, ok := d.(*ast.GenDecl); !ok || gd.Tok != token.IMPORT {
			nonImport = append(nonImport, d)
		}
	}
	used := usedPackages(nonImport...)
	var imports []string
	for _, im := range f.Imports {
		local, p := importLocal(im)
		if used[local] {
			s := strconv.Quote(p)
			if im.Name != nil {
				s = im.Name.Name + " " + s
			}
			imports = append(imports, s)
		}
	}
	imports = append(imports, strconv.Quote(schedPath))
	var ds []ast.Decl
	for _, d := range f.Decls {
		if gd, ok := d.(*ast.GenDecl); ok && gd.Tok == token.IMPORT {
			continue
		}
		ds = append(ds, d)
	}
	f.Decls = ds
	f.Imports = nil
	var buf bytes.Buffer
	if err := (&printer.Config{Mode: printer.UseSpaces | printer.TabIndent, Tabwidth: 8}).Fprint(&buf, j.fset, f); err != nil {
		die("print: %v", err)
	}
	// splice the import block after the package clause
	src := buf.String()
	marker := "package " + pkg + "\n"
	i := strings.Index(src, marker)
	if i < 0 {
		die("internal: package clause not found in printed source")
	}
	imp := "\nimport (\n\t" + strings.Join(imports, "\n\t") + "\n)\n"
	src = j.header(what) + src[:i+len(marker)] + imp + src[i+len(marker):]
	finish(out, []byte(src))
}

func declDoc(d ast.Decl) *ast.CommentGroup {
	switch d := d.(type) {
	case *ast.FuncDecl:
		return d.Doc
	case *ast.GenDecl:
		return d.Doc
	}
	return nil
}

func recvType(fd *ast.FuncDecl) (typ, name string) {
	if fd.Recv == nil || len(fd.Recv.List) != 1 {
		return "", ""
	}
	t := fd.Recv.List[0].Type
	if s, ok := t.(*ast.StarExpr); ok {
		t = s.X
	}
	if ix, ok := t.(*ast.IndexExpr); ok {
		t = ix.X
	}
	id, ok := t.(*ast.Ident)
	if !ok {
		return "", ""
	}
	if len(fd.Recv.List[0].Names) == 1 {
		name = fd.Recv.List[0].Names[0].Name
	}
	return id.Name, name
}

// gate extracts the named methods of recv (and the methods of recv they call) plus a
// struct made of exactly the fields they touch.
func gate(j *job, pkg, out, recv string, roots []string) {
	f := j.file
	methods := map[string]*ast.FuncDecl{}
	var st *ast.StructType
	for _, d := range f.Decls {
		switch d := d.(type) {
		case *ast.FuncDecl:
			if t, _ := recvType(d); t == recv {
				methods[d.Name.Name] = d
			}
		case *ast.GenDecl:
			if d.Tok == token.TYPE {
				for _, s := range d.Specs {
					ts := s.(*ast.TypeSpec)
					if ts.Name.Name == recv {
						st, _ = ts.Type.(*ast.StructType)
					}
				}
			}
		}
	}
	if st == nil {
		die("%s: struct type %s not found (file changed shape?)", j.src, recv)
	}
	fieldOf := map[string]*ast.Field{}
	for _, fl := range st.Fields.List {
		for _, n := range fl.Names {
			fieldOf[n.Name] = fl
		}
	}
	picked := map[string]bool{}
	fields := map[string]bool{}
	var order []string
	work := append([]string(nil), roots...)
	for len(work) > 0 {
		name := work[0]
		work = work[1:]
		if picked[name] {
			continue
		}
		fd := methods[name]
		if fd == nil {
			die("%s: expected method (*%s).%s not found (file changed shape?)", j.src, recv, name)
		}
		if fd.Body == nil {
			die("%s: method %s has no body", j.src, name)
		}
		picked[name] = true
		order = append(order, name)
		_, rname := recvType(fd)
		ast.Inspect(fd.Body, func(n ast.Node) bool {
			s, ok := n.(*ast.SelectorExpr)
			if !ok {
				return true
			}
			if x, ok := s.X.(*ast.Ident); ok && x.Name == rname && rname != "" {
				if _, ok := methods[s.Sel.Name]; ok {
					work = append(work, s.Sel.Name)
				} else if _, ok := fieldOf[s.Sel.Name]; ok {
					fields[s.Sel.Name] = true
				} else {
					die("%s: %s.%s is neither a field nor a method of %s declared in this file (file changed shape?)", j.fset.Position(s.Pos()), rname, s.Sel.Name, recv)
				}
			}
			return true
		})
	}
	sort.Slice(order, func(a, b int) bool { return methods[order[a]].Pos() < methods[order[b]].Pos() })

	var body bytes.Buffer
	cfg := &printer.Config{Mode: printer.UseSpaces | printer.TabIndent, Tabwidth: 8}
	var nodes []ast.Node
	// struct: the touched fields, in declaration order, each printed from the repo's tree
	fmt.Fprintf(&body, "type %s struct {\n", recv)
	seen := map[*ast.Field]bool{}
	for _, fl := range st.Fields.List {
		var names []*ast.Ident
		for _, n := range fl.Names {
			if fields[n.Name] {
				names = append(names, n)
			}
		}
		if len(names) == 0 || seen[fl] {
			continue
		}
		seen[fl] = true
		nf := &ast.Field{Names: names, Type: fl.Type, Comment: fl.Comment}
		j.rewrite(nf)
		j.validate(nf)
		nodes = append(nodes, nf)
		var ns []string
		for _, n := range names {
			ns = append(ns, n.Name)
		}
		body.WriteString("\t" + strings.Join(ns, ", ") + " ")
		if err := cfg.Fprint(&body, j.fset, nf.Type); err != nil {
			die("print: %v", err)
		}
		if fl.Comment != nil {
			body.WriteString(" " + strings.TrimSpace(fl.Comment.List[0].Text))
		}
		body.WriteString("\n")
	}
	body.WriteString("}\n\n")
	for _, name := range order {
		fd := methods[name]
		j.rewrite(fd)
		j.validate(fd)
		nodes = append(nodes, fd)
		if err := cfg.Fprint(&body, j.fset, &printer.CommentedNode{Node: fd, Comments: f.Comments}); err != nil {
			die("print: %v", err)
		}
		body.WriteString("\n\n")
	}
	used := usedPackages(nodes...)
	var imports []string
	for _, im := range f.Imports {
		local, p := importLocal(im)
		if used[local] && local != "sched" {
			s := strconv.Quote(p)
			if im.Name != nil {
				s = im.Name.Name + " " + s
			}
			imports = append(imports, s)
		}
	}
	if used["sched"] {
		imports = append(imports, strconv.Quote(schedPath))
	} else {
		die("%s: the extracted gate uses no synchronisation type (file changed shape?)", j.src)
	}
	src := j.header("methods "+strings.Join(order, ", ")+" of *"+recv+" and the fields they touch") +
		"package " + pkg + "\n\nimport (\n\t" + strings.Join(imports, "\n\t") + "\n)\n\n" + body.String()
	finish(out, []byte(src))
}

func main() {
	repo := flag.String("repo", os.Getenv("VERIF_REPO"), "repository under test")
	out := flag.String("out", "x", "output directory")
	pkg := flag.String("pkg", "x", "generated package name")
	flag.Parse()
	if *repo == "" {
		*repo = "/repo"
	}
	if err := os.MkdirAll(*out, 0o755); err != nil {
		die("%v", err)
	}
	for _, kind := range flag.Args() {
		o := filepath.Join(*out, kind+"_gen.go")
		os.Remove(o)
		switch kind {
		case "ring":
			j := parse(filepath.Join(*repo, "pkg/kgo/ring.go"))
			wholeFile(j, *pkg, o, "whole file", nil, []string{"ring", "initMaxLen", "die", "empty", "push", "pushForce", "doPush", "dropPeek"})
		case "workloop":
			j := parse(filepath.Join(*repo, "pkg/kgo/atomic_maybe_work.go"))
			keep := func(d ast.Decl) bool {
				switch d := d.(type) {
				case *ast.FuncDecl:
					t, _ := recvType(d)
					return t == "workLoop"
				case *ast.GenDecl:
					if d.Tok == token.CONST {
						return true
					}
					if d.Tok == token.TYPE {
						for _, s := range d.Specs {
							if s.(*ast.TypeSpec).Name.Name == "workLoop" {
								return true
							}
						}
					}
				}
				return false
			}
			wholeFile(j, *pkg, o, "const block, type workLoop and its methods", keep, []string{"workLoop", "maybeBegin", "maybeFinish", "hardFinish"})
		case "xsync":
			j := parse(filepath.Join(*repo, "pkg/kgo/internal/xsync/synctest_mutex.go"))
			j.chans = true
			wholeFile(j, *pkg, o, "whole file, build constraint dropped", nil, []string{"Mutex", "RWMutex", "Lock", "Unlock", "TryLock", "RLock", "RUnlock", "TryRLock"})
		case "gate":
			j := parse(filepath.Join(*repo, "pkg/kgo/consumer.go"))
			j.allowGo = 1 // `go c.cl.cfg.onBlocked(...)`, never taken: the harness leaves onBlocked nil
			gate(j, *pkg, o, "consumer", []string{"waitAndAddPoller", "unaddPoller", "allowRebalance", "waitAndAddRebalance", "unaddRebalance"})
		default:
			die("unknown kind %q", kind)
		}
		fmt.Printf("extract: wrote %s\n", o)
	}
}
