package c07

import (
	"context"
	"fmt"
	"runtime"
	"sort"
	"sync"
	"sync/atomic"
	"testing"
	"testing/synctest"
	"time"

	"github.com/twmb/franz-go/pkg/kfake"
	"github.com/twmb/franz-go/pkg/kgo"
	"github.com/twmb/franz-go/pkg/kmsg"

	"verif/h/bubble"
	"verif/h/ev"
)

// hookLogger is a kgo.Logger used as a schedule point: kgo calls it synchronously on the
// goroutine that logs, so a test can act exactly between two steps of the client.
type hookLogger struct{ fn func(msg string) }

func (hookLogger) Level() kgo.LogLevel { return kgo.LogLevelDebug }
func (l hookLogger) Log(_ kgo.LogLevel, msg string, _ ...any) {
	l.fn(msg)
}

// TestRegressLeaveDuringShrinkingReconciliation replays the history behind the C07 finding of
// the focused 848 run: member m1 owns every partition; a second member joins; the heartbeat
// response that takes partitions away from m1 arrives, and m1 calls LeaveGroup at that very
// moment (before the client has run the revocation of the partitions it just lost). Every
// partition m1 was given through OnPartitionsAssigned must then be handed back through
// OnPartitionsRevoked or OnPartitionsLost; a partition that silently drops out of m1's
// assignment is later assigned to the other member while m1 never released it.
func TestRegressLeaveDuringShrinkingReconciliation(t *testing.T) {
	n := 30
	if ev.Thorough() {
		n = 120
	}
	hit := 0
	for i := 0; i < n; i++ {
		var missing []string
		shrunk := false
		bubble.Run(t, nil, func(e *bubble.Env) {
			e.StartCluster(bubble.ClusterOpts{Brokers: 1, Topics: map[string]int32{"g0": 3},
				Extra: []kfake.Opt{kfake.BrokerConfigs(map[string]string{"group.consumer.heartbeat.interval.ms": "100"})}})
			var mu sync.Mutex
			owned := map[string]bool{}
			released := map[string]bool{}
			cb := func(m map[string]bool) func(context.Context, *kgo.Client, map[string][]int32) {
				return func(_ context.Context, _ *kgo.Client, ps map[string][]int32) {
					mu.Lock()
					defer mu.Unlock()
					for t, parts := range ps {
						for _, p := range parts {
							m[fmt.Sprintf("%s/%d", t, p)] = true
						}
					}
				}
			}
			next := context.WithValue(context.Background(), "opt_in_kafka_next_gen_balancer_beta", true) //nolint
			// Even iterations place the leave deterministically: the client logs "heartbeat complete"
			// right after the heartbeat function stored the smaller assignment; the logger starts
			// LeaveGroup there and lets it run until it blocks (its context cancel has happened)
			// before the heartbeat loop continues. Odd iterations rely on real scheduling.
			var m1 *kgo.Client
			var shrinkSeen, leaveStarted atomic.Bool
			left := make(chan struct{})
			startLeave := func() {
				if !leaveStarted.CompareAndSwap(false, true) {
					return
				}
				go func() {
					lctx, cancel := context.WithTimeout(context.Background(), time.Minute)
					m1.LeaveGroupContext(lctx)
					cancel()
					close(left)
				}()
			}
			logger := hookLogger{fn: func(msg string) {
				if i%2 == 0 && msg == "heartbeat complete" && shrinkSeen.Load() && !leaveStarted.Load() {
					startLeave()
					synctest.Wait()
				}
			}}
			m1 = e.NewClient(kgo.WithContext(next), kgo.ConsumerGroup("g7r"), kgo.ConsumeTopics("g0"), kgo.ClientID("m1"), kgo.WithLogger(logger),
				kgo.OnPartitionsAssigned(cb(owned)), kgo.OnPartitionsRevoked(cb(released)), kgo.OnPartitionsLost(cb(released)))
			for dl := time.Now().Add(time.Minute); time.Now().Before(dl); {
				ctx, cancel := context.WithTimeout(context.Background(), 200*time.Millisecond)
				m1.PollFetches(ctx)
				cancel()
				mu.Lock()
				k := len(owned)
				mu.Unlock()
				if k == 3 {
					break
				}
			}
			sig := make(chan struct{}, 1)
			e.Net.SetOnResp(func(ri *bubble.ReqInfo, body []byte) {
				if ri.Key != int16(kmsg.ConsumerGroupHeartbeat) {
					return
				}
				resp := kmsg.NewPtrConsumerGroupHeartbeatResponse()
				resp.Version = ri.Version
				if len(body) < 5 || resp.ReadFrom(body[5:]) != nil || resp.Assignment == nil {
					return
				}
				k := 0
				for _, t := range resp.Assignment.Topics {
					k += len(t.Partitions)
				}
				if k < 3 {
					shrinkSeen.Store(true)
					select {
					case sig <- struct{}{}:
					default:
					}
				}
			})
			e.NewClient(kgo.WithContext(next), kgo.ConsumerGroup("g7r"), kgo.ConsumeTopics("g0"), kgo.ClientID("m2"))
			select {
			case <-sig:
				shrunk = true
			case <-time.After(time.Minute):
			}
			e.Net.SetOnResp(nil)
			if i%2 == 1 {
				for j := 0; j < (i%40)*5; j++ {
					runtime.Gosched()
				}
				startLeave()
			} else {
				time.Sleep(2 * time.Second) // the logger hook starts the leave at the next heartbeat
				startLeave()
			}
			bubble.WaitTimeout(left, 2*time.Minute)
			time.Sleep(5 * time.Second)
			mu.Lock()
			for tp := range owned {
				if !released[tp] {
					missing = append(missing, tp)
				}
			}
			mu.Unlock()
			sort.Strings(missing)
		})
		if shrunk {
			hit++
		}
		ev.Case(fmt.Sprintf("regress-leave-during-shrinking-reconciliation-%d-yields", i%6), shrunk)
		if len(missing) > 0 {
			t.Fatalf("iteration %d: m1 was assigned g0/0..2, left the group while a reconciliation was taking partitions away, and never got OnPartitionsRevoked/OnPartitionsLost for %v", i, missing)
		}
	}
	ev.Class("regression-replays")
	if hit == 0 {
		t.Fatalf("VERIF-INFRA: the shrinking heartbeat response was never observed")
	}
}

// TestRegressPartitionsAddedWhileFirstMemberJoins replays "fixed: property=C07 ... kfake keeps
// the newest topic metadata snapshot": a KIP-848 member joins at the very moment partitions
// are added to its topic. The member's first heartbeat could carry the older partition count
// and be processed after the change notification, after which nothing ever recomputed the
// assignment: the added partitions stayed unowned although membership and subscriptions had
// stopped changing. Schedule dependent (smoke test).
func TestRegressPartitionsAddedWhileFirstMemberJoins(t *testing.T) {
	n := 60
	if ev.Thorough() {
		n = 400
	}
	for i := 0; i < n; i++ {
		var owned map[string]bool
		bubble.Run(t, nil, func(e *bubble.Env) {
			e.StartCluster(bubble.ClusterOpts{Brokers: 1, Topics: map[string]int32{"g0": 2},
				Extra: []kfake.Opt{kfake.BrokerConfigs(map[string]string{"group.consumer.heartbeat.interval.ms": "100"})}})
			var mu sync.Mutex
			owned = map[string]bool{}
			add := func(_ context.Context, _ *kgo.Client, ps map[string][]int32) {
				mu.Lock()
				defer mu.Unlock()
				for t, parts := range ps {
					for _, p := range parts {
						owned[fmt.Sprintf("%s/%d", t, p)] = true
					}
				}
			}
			del := func(_ context.Context, _ *kgo.Client, ps map[string][]int32) {
				mu.Lock()
				defer mu.Unlock()
				for t, parts := range ps {
					for _, p := range parts {
						delete(owned, fmt.Sprintf("%s/%d", t, p))
					}
				}
			}
			admin := e.NewClient()
			next := context.WithValue(context.Background(), "opt_in_kafka_next_gen_balancer_beta", true) //nolint
			m := e.NewClient(kgo.WithContext(next), kgo.ConsumerGroup("g7p"), kgo.ConsumeTopics("g0"), kgo.OnPartitionsAssigned(add), kgo.OnPartitionsRevoked(del), kgo.OnPartitionsLost(del))
			for j := 0; j < (i%20)*3; j++ {
				runtime.Gosched()
			}
			req := kmsg.NewPtrCreatePartitionsRequest()
			rt := kmsg.NewCreatePartitionsRequestTopic()
			rt.Topic, rt.Count = "g0", 4
			req.Topics = append(req.Topics, rt)
			req.TimeoutMillis = 5000
			ctx, cancel := context.WithTimeout(context.Background(), time.Minute)
			if _, err := req.RequestWith(ctx, admin); err != nil {
				panic("VERIF-INFRA: CreatePartitions: " + err.Error())
			}
			cancel()
			for dl := time.Now().Add(30 * time.Second); time.Now().Before(dl); {
				pc, cancel := context.WithTimeout(context.Background(), 500*time.Millisecond)
				m.PollFetches(pc)
				cancel()
			}
			mu.Lock()
			defer mu.Unlock()
			owned = map[string]bool{"g0/0": owned["g0/0"], "g0/1": owned["g0/1"], "g0/2": owned["g0/2"], "g0/3": owned["g0/3"]}
		})
		ev.Case(fmt.Sprintf("regress-partitions-added-while-first-member-joins-%d-yields", (i%20)*3), true)
		for tp, ok := range owned {
			if !ok {
				t.Fatalf("iteration %d: 30 virtual seconds after the only member joined and g0 grew to 4 partitions, %s has no owner (owned: %v)", i, tp, owned)
			}
		}
	}
}
