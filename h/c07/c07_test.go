package c07

import (
	"fmt"
	"os"
	"testing"
	"time"

	"pgregory.net/rapid"

	"verif/h/bubble"
	"verif/h/ev"
	"verif/h/wl"
)

func TestMain(m *testing.M) { ev.Main(m, "C07") }

func TestNoDualOwnership(t *testing.T) { noDualOwnership(t, wl.GroupFocus{}) }

// TestNoDualOwnership848Scarce searches the denser sub-domain in which KIP-848 members lose
// their whole assignment while a slow revoke callback spans several heartbeats.
func TestNoDualOwnership848Scarce(t *testing.T) {
	noDualOwnership(t, wl.GroupFocus{Only848: true, Scarce: true, SlowRevoke: true})
}

// TestNoDualOwnershipCoopMulti searches the incremental protocols with members that consume
// two or three topics of different sizes: one rebalance then takes some partitions of one topic
// away while the member's share of another topic changes too.
func TestNoDualOwnershipCoopMulti(t *testing.T) {
	noDualOwnership(t, wl.GroupFocus{CoopMulti: true})
}

func noDualOwnership(t *testing.T, focus wl.GroupFocus) {
	rapid.Check(t, func(rt *rapid.T) {
		plan := wl.GenGroupPlanF(rt, focus)
		var o *wl.GroupObs
		bubble.Run(t, rt, func(e *bubble.Env) {
			o = wl.RunGroup(e, plan)
			fail := func(format string, a ...any) {
				rt.Fatalf("%s\nplan: %s\nhistory tail:\n%s", fmt.Sprintf(format, a...), plan.Brief(), o.Log.Dump(dumpN()))
			}
			if o.DualOwnership != "" {
				fail("two members own a partition at once: %s", o.DualOwnership)
			}
			if len(o.Unowned) > 0 {
				fail("membership and subscriptions stopped changing 3 virtual minutes ago, but %d subscribed partition(s) have no owner: %v (live members %v, final owners %v)", len(o.Unowned), o.Unowned, o.Live, o.FinalOwner)
			}
			// an owned partition must belong to a live member subscribed to its topic
			for tp, m := range o.FinalOwner {
				ts, live := o.Live[m]
				if !live {
					fail("%s is still owned by %s, which left the group", tp, m)
				}
				sub := false
				for _, t := range ts {
					if t == tp.Topic {
						sub = true
					}
				}
				if !sub {
					fail("%s is owned by %s, which does not subscribe to %s", tp, m, tp.Topic)
				}
			}
		})
		nt := o.Moves > 0
		ev.Case(o.Digest(), nt)
		ev.Class("protocol:" + plan.Protocol)
		if o.Moves > 0 {
			ev.Class("partition-moved-between-members")
		}
		if plan.Regex {
			ev.Class("regex-subscription")
		}
		if plan.RevokeWork >= 700*time.Millisecond {
			ev.Class("revoke-callback-outlasts-heartbeats")
		}
		if o.LeavesAtLog.Load() > 0 {
			ev.Class("leave-issued-at-a-client-log-line")
		}
		ev.ClassN("ownership-callbacks", int64(len(o.Own)))
		ev.ClassN("joins", int64(o.Joined))
		ev.ClassN("leaves", int64(o.Left))
		if nt {
			ev.SampleIf(func() any {
				return map[string]any{"plan": plan.Brief(), "ownership_events": len(o.Own), "moves": o.Moves, "final_owner": fmt.Sprint(o.FinalOwner)}
			})
		}
	})
}

func dumpN() int {
	if os.Getenv("VERIF_DEBUG") != "" {
		return 2000
	}
	return 60
}
