package balsim

import (
	"fmt"
	"slices"
	"sort"

	"pgregory.net/rapid"
)

// ------------------------------------------------------------ random inputs

// GenOpts bounds the random generator.
type GenOpts struct {
	MaxMembers int
	MaxTopics  int
	MaxParts   int
	Racks      bool // draw member racks and a partition rack map
	Priors     bool // draw prior ownership claims
	Hostile    bool // claims may name unknown topics / out-of-range partitions
}

var rackNames = []string{"", "ra", "rb", "rc"}

// Shape summarises a generated input for evidence classes.
type Shape struct {
	Uneven        bool // members do not all subscribe to the same topics
	EmptySub      bool
	HasPrior      bool
	StaleConflict bool // one partition claimed by two members with different generations
	EqualConflict bool // one partition claimed by two members with equal generations
	MissingTopic  bool // subscribed topic absent from the count map
	ExtraTopic    bool // topic in the count map nobody subscribes to
	StaleOwned    bool // claim on a topic the claimant is not subscribed to / unknown / out of range
	MemberRacks   bool
	PartRacks     bool
	Static        bool
}

func Describe(in Input) Shape {
	var s Shape
	sub := map[string]bool{}
	for i, m := range in.Members {
		if i > 0 && !slices.Equal(m.Topics, in.Members[0].Topics) {
			s.Uneven = true
		}
		if len(m.Topics) == 0 {
			s.EmptySub = true
		}
		if m.Rack != "" {
			s.MemberRacks = true
		}
		if m.InstanceID != "" {
			s.Static = true
		}
		for _, t := range m.Topics {
			sub[t] = true
			if _, ok := in.Counts[t]; !ok {
				s.MissingTopic = true
			}
		}
		for t, ps := range m.Owned {
			if len(ps) > 0 {
				s.HasPrior = true
			}
			n, ok := in.Counts[t]
			if !ok || !slices.Contains(m.Topics, t) {
				s.StaleOwned = true
			}
			for _, p := range ps {
				if p < 0 || p >= n {
					s.StaleOwned = true
				}
			}
		}
	}
	for t := range in.Counts {
		if !sub[t] {
			s.ExtraTopic = true
		}
	}
	for _, cl := range claimIndex(in) {
		for a := 0; a < len(cl); a++ {
			for b := a + 1; b < len(cl); b++ {
				if in.Members[cl[a]].Gen == in.Members[cl[b]].Gen {
					s.EqualConflict = true
				} else {
					s.StaleConflict = true
				}
			}
		}
	}
	if in.PartRacks != nil {
		s.PartRacks = true
	}
	return s
}

// GenInput draws one balancing problem.
func GenInput(t *rapid.T, o GenOpts) Input {
	nTopics := rapid.IntRange(1, o.MaxTopics).Draw(t, "ntopics")
	topics := make([]string, nTopics)
	counts := map[string]int32{}
	for i := range topics {
		topics[i] = fmt.Sprintf("t%d", i)
		// -1 = the topic does not exist (absent from the count map)
		n := rapid.IntRange(-1, o.MaxParts).Draw(t, "parts")
		if n >= 0 {
			counts[topics[i]] = int32(n)
		}
	}
	if rapid.IntRange(0, 7).Draw(t, "extra") == 0 {
		counts["zz"] = int32(rapid.IntRange(0, o.MaxParts).Draw(t, "extraparts"))
	}

	nMembers := rapid.IntRange(1, o.MaxMembers).Draw(t, "nmembers")
	// ids are a drawn permutation so that id order, instance order and index
	// order are independent
	perm := rapid.Permutation(seq(nMembers)).Draw(t, "idperm")
	subMode := rapid.IntRange(0, 3).Draw(t, "submode") // 0: everyone everything, 1: everyone the same subset, 2,3: independent subsets
	common := drawSubset(t, topics, "common", false)
	members := make([]Member, nMembers)
	for i := range members {
		m := &members[i]
		m.ID = fmt.Sprintf("m%02d", perm[i])
		if rapid.IntRange(0, 5).Draw(t, "static") == 0 {
			m.InstanceID = fmt.Sprintf("i%02d", nMembers-perm[i])
		}
		switch subMode {
		case 0:
			m.Topics = slices.Clone(topics)
		case 1:
			m.Topics = slices.Clone(common)
		default:
			m.Topics = drawSubset(t, topics, "subs", true)
		}
		m.Gen = -1
		if o.Racks {
			m.Rack = rapid.SampledFrom(rackNames).Draw(t, "rack")
		}
	}
	in := Input{Members: members, Counts: counts}
	if o.Priors {
		genPriors(t, &in, topics, o)
	}
	if o.Racks && rapid.IntRange(0, 4).Draw(t, "partracks") > 0 {
		in.PartRacks = map[string][]string{}
		shape := rapid.IntRange(0, 9).Draw(t, "rackshape")
		names := make([]string, 0, len(counts))
		for tn := range counts {
			names = append(names, tn)
		}
		sort.Strings(names)
		for _, tn := range names {
			n := int(counts[tn])
			l := n
			if shape == 0 && n > 0 { // shorter than the topic (guarded in the code under test)
				l = n - 1
			} else if shape == 1 { // longer
				l = n + 1
			}
			rs := make([]string, l)
			for p := range rs {
				rs[p] = rapid.SampledFrom([]string{"", "ra", "rb", "rc", "rd"}).Draw(t, "prack")
			}
			in.PartRacks[tn] = rs
		}
	}
	return in
}

func seq(n int) []int {
	s := make([]int, n)
	for i := range s {
		s[i] = i
	}
	return s
}

func drawSubset(t *rapid.T, topics []string, label string, allowEmpty bool) []string {
	var out []string
	for _, tn := range topics {
		if rapid.Bool().Draw(t, label) {
			out = append(out, tn)
		}
	}
	if len(out) == 0 && !(allowEmpty && rapid.IntRange(0, 3).Draw(t, "empty") == 0) {
		return []string{topics[0]}
	}
	return out
}

// genPriors fills Owned/Gen.
//
//	mode 0: no priors
//	mode 1: a consistent previous generation: every partition of the "previous"
//	        topic layout owned by at most one member, all at generation G
//	mode 2: mode 1 plus stale claimants (lower generation) re-claiming partitions
//	mode 3: mode 1 plus equal-generation conflicting claims
//	mode 4: arbitrary claims and generations
func genPriors(t *rapid.T, in *Input, topics []string, o GenOpts) {
	mode := rapid.IntRange(0, 4).Draw(t, "priormode")
	if mode == 0 {
		return
	}
	n := len(in.Members)
	type part struct {
		t string
		p int32
	}
	var universe []part
	for _, tn := range topics {
		c := int(in.Counts[tn])
		if o.Hostile && rapid.IntRange(0, 5).Draw(t, "shrunk") == 0 {
			c += 2 // the topic used to be larger / existed before
		}
		for p := 0; p < c; p++ {
			universe = append(universe, part{tn, int32(p)})
		}
	}
	if o.Hostile && rapid.IntRange(0, 5).Draw(t, "ghost") == 0 {
		universe = append(universe, part{"gone", 0}, part{"gone", 1})
	}
	if o.Hostile && rapid.IntRange(0, 15).Draw(t, "neg") == 0 && len(topics) > 0 {
		universe = append(universe, part{topics[0], -1})
	}
	add := func(i int, pt part) {
		m := &in.Members[i]
		if m.Owned == nil {
			m.Owned = map[string][]int32{}
		}
		if !slices.Contains(m.Owned[pt.t], pt.p) {
			m.Owned[pt.t] = append(m.Owned[pt.t], pt.p)
		}
	}
	G := int32(rapid.IntRange(0, 6).Draw(t, "gen"))
	if mode <= 3 {
		// previous owners: either respecting the current subscriptions (a stable
		// group) or arbitrary (subscriptions changed since)
		respect := rapid.Bool().Draw(t, "respect")
		skew := rapid.IntRange(0, 2).Draw(t, "skew") // 0 uniform, 1 concentrated on few members, 2 some unowned
		for i := range in.Members {
			in.Members[i].Gen = G
		}
		for _, pt := range universe {
			if skew == 2 && rapid.IntRange(0, 2).Draw(t, "unowned") == 0 {
				continue
			}
			var cand []int
			for i := range in.Members {
				if !respect || slices.Contains(in.Members[i].Topics, pt.t) {
					cand = append(cand, i)
				}
			}
			if len(cand) == 0 {
				continue
			}
			var i int
			if skew == 1 {
				i = cand[rapid.IntRange(0, min(1, len(cand)-1)).Draw(t, "owner")]
			} else {
				i = cand[rapid.IntRange(0, len(cand)-1).Draw(t, "owner")]
			}
			add(i, pt)
		}
		// some members are new (never joined)
		for i := range in.Members {
			if len(in.Members[i].Owned) == 0 && rapid.IntRange(0, 2).Draw(t, "fresh") == 0 {
				in.Members[i].Gen = -1
			}
		}
		if mode == 2 || mode == 3 {
			k := rapid.IntRange(1, max(1, n/2)).Draw(t, "nstale")
			for j := 0; j < k && len(universe) > 0; j++ {
				i := rapid.IntRange(0, n-1).Draw(t, "stalemember")
				if mode == 2 {
					// a member that missed rebalances: everything it claims is from an older generation
					in.Members[i].Gen = max(-1, G-int32(rapid.IntRange(1, 3).Draw(t, "behind")))
				}
				c := rapid.IntRange(1, min(6, len(universe))).Draw(t, "nclaims")
				for x := 0; x < c; x++ {
					add(i, universe[rapid.IntRange(0, len(universe)-1).Draw(t, "claim")])
				}
			}
		}
	} else {
		for i := range in.Members {
			in.Members[i].Gen = int32(rapid.IntRange(-1, 4).Draw(t, "mgen"))
			if len(universe) == 0 {
				continue
			}
			c := rapid.IntRange(0, min(8, len(universe))).Draw(t, "nclaims")
			for x := 0; x < c; x++ {
				add(i, universe[rapid.IntRange(0, len(universe)-1).Draw(t, "claim")])
			}
		}
	}
	for i := range in.Members {
		for tn := range in.Members[i].Owned {
			slices.Sort(in.Members[i].Owned[tn])
		}
	}
}

// ------------------------------------------------------------ small exhaustive space

// SmallCfg is one point of the small space: 1..3 members, 2 topic names, each
// topic with 0..3 partitions or absent from the count map, every subscription
// pattern (each member any subset of the two topics).
type SmallCfg struct {
	N      int
	Subs   [3]int // bit 0 = topic "a", bit 1 = topic "b"
	Counts [2]int // -1 = absent
}

var smallTopics = [2]string{"a", "b"}

// SmallIDs: id order differs from index order for member 2 ("m0" < "m1" < "m2"
// but the static instance id of member 2 sorts it first when Static is used).
func (c SmallCfg) Input() Input {
	in := Input{Counts: map[string]int32{}}
	for i, n := range c.Counts {
		if n >= 0 {
			in.Counts[smallTopics[i]] = int32(n)
		}
	}
	for i := 0; i < c.N; i++ {
		m := Member{ID: fmt.Sprintf("m%d", i), Gen: -1}
		for b := 0; b < 2; b++ {
			if c.Subs[i]&(1<<b) != 0 {
				m.Topics = append(m.Topics, smallTopics[b])
			}
		}
		in.Members = append(in.Members, m)
	}
	return in
}

func (c SmallCfg) Key() string {
	return fmt.Sprintf("n%d s%d%d%d c%d,%d", c.N, c.Subs[0], c.Subs[1], c.Subs[2], c.Counts[0], c.Counts[1])
}

// EachSmall enumerates the whole small space.
func EachSmall(fn func(SmallCfg)) {
	for n := 1; n <= 3; n++ {
		lim := [3]int{4, 1, 1}
		if n >= 2 {
			lim[1] = 4
		}
		if n >= 3 {
			lim[2] = 4
		}
		for s0 := 0; s0 < lim[0]; s0++ {
			for s1 := 0; s1 < lim[1]; s1++ {
				for s2 := 0; s2 < lim[2]; s2++ {
					for c0 := -1; c0 <= 3; c0++ {
						for c1 := -1; c1 <= 3; c1++ {
							fn(SmallCfg{N: n, Subs: [3]int{s0, s1, s2}, Counts: [2]int{c0, c1}})
						}
					}
				}
			}
		}
	}
}

// SmallParts lists the existing partitions of a small input in a fixed order.
func SmallParts(in Input) (ts []string, ps []int32) {
	for _, tn := range smallTopics {
		for p := int32(0); p < in.Counts[tn]; p++ {
			ts = append(ts, tn)
			ps = append(ps, p)
		}
	}
	return
}

// NumOwnPatterns is the size of the bounded family of prior-ownership patterns
// applied on top of each small configuration.
const NumOwnPatterns = 9

var OwnPatternNames = [NumOwnPatterns]string{
	"none", "round-robin-same-gen", "all-on-m0", "stale-m0-vs-current-last", "equal-gen-conflict-m0-m1",
	"per-member-gens-no-conflict", "mixed-three-way", "all-on-last-incl-ghosts", "stale-last-vs-current-m0",
}

// ApplyOwnPattern sets Owned/Gen of in's members to pattern k (claims ignore
// subscriptions on purpose: subscriptions may have changed since).
func ApplyOwnPattern(in *Input, k int) {
	ts, ps := SmallParts(*in)
	n := len(in.Members)
	own := func(i int, t string, p int32) {
		m := &in.Members[i]
		if m.Owned == nil {
			m.Owned = map[string][]int32{}
		}
		if !slices.Contains(m.Owned[t], p) {
			m.Owned[t] = append(m.Owned[t], p)
			slices.Sort(m.Owned[t])
		}
	}
	gens := func(g ...int32) {
		for i := range in.Members {
			in.Members[i].Gen = g[min(i, len(g)-1)]
		}
	}
	last := n - 1
	switch k {
	case 0:
	case 1:
		gens(3)
		for x := range ts {
			own(x%n, ts[x], ps[x])
		}
	case 2:
		gens(3)
		for x := range ts {
			own(0, ts[x], ps[x])
		}
	case 3: // m0 missed rebalances and still claims everything; the last member owns everything now
		gens(3)
		in.Members[0].Gen = 1
		for x := range ts {
			own(0, ts[x], ps[x])
			own(last, ts[x], ps[x])
		}
	case 4:
		gens(2)
		for x := range ts {
			own(0, ts[x], ps[x])
			own(min(1, last), ts[x], ps[x])
		}
	case 5:
		gens(1, 2, 3)
		for x := range ts {
			own((x+1)%n, ts[x], ps[x])
		}
	case 6: // m0 claims everything at gen 2, m1 claims topic a at gen 3, m2 claims even partitions at gen 1
		gens(2, 3, 1)
		for x := range ts {
			own(0, ts[x], ps[x])
			if n > 1 && ts[x] == "a" {
				own(1, ts[x], ps[x])
			}
			if n > 2 && ps[x]%2 == 0 {
				own(2, ts[x], ps[x])
			}
		}
	case 7: // everything on the last member, plus partitions/topics that no longer exist
		gens(0)
		for x := range ts {
			own(last, ts[x], ps[x])
		}
		own(last, "a", 7)
		own(last, "gone", 0)
	case 8: // the mirror of 3: the last member is stale, m0 is current
		gens(4)
		in.Members[last].Gen = 0
		for x := range ts {
			own(0, ts[x], ps[x])
			own(last, ts[x], ps[x])
		}
	}
}
