// Package balsim is the shared harness code of the balancer checks C25, C26 and C27.
//
// It drives franz-go's client-side balancers strictly through the public
// kgo.GroupBalancer API, the way the group leader does in
// pkg/kgo/group_balancer.go balanceGroup:
//
//	JoinGroupMetadata (per member) -> sort members (instance id, then member id)
//	-> MemberBalancer -> BalanceOrError/Balance -> IntoSyncAssignment
//	-> ParseSyncAssignment (per member)
//
// and it contains the executable oracles (validity, augmenting chains,
// cooperative hand-off) plus a model of what a cooperative kgo member does with
// a received assignment (consumer_group.go: handleSyncResp, diffAssigned,
// setupAssignedAndHeartbeat, revoke(revokeLastSession) + rejoin,
// joinGroupProtocols).
//
// The one thing that is NOT reachable through the public API is the partition
// rack map of KIP-881: balanceGroup stores it in the unexported field
// ConsumerBalancer.partitionRacks from the client's cached cluster metadata.
// InjectPartitionRacks writes that field through reflect/unsafe (and reports an
// infrastructure error if the field changes shape); every other input goes
// through exported functions only.
package balsim

import (
	"fmt"
	"reflect"
	"runtime/debug"
	"slices"
	"sort"
	"strings"
	"time"
	"unsafe"

	"github.com/twmb/franz-go/pkg/kgo"
	"github.com/twmb/franz-go/pkg/kmsg"
)

// Member is one group member as it presents itself in JoinGroup.
type Member struct {
	ID         string
	InstanceID string             // "" = dynamic member
	Topics     []string           // subscription; sorted, unique
	Owned      map[string][]int32 // claimed current assignment (sorted partitions), may be nil
	Gen        int32              // generation the claim is from (-1 = never joined)
	Rack       string             // "" = no rack
}

// Input is one balancing problem.
type Input struct {
	Members   []Member
	Counts    map[string]int32    // topic => number of partitions known to the leader
	PartRacks map[string][]string // nil = no partition rack information (injected, see package doc)
}

// Plan is member => topic => partitions, as parsed back from the sync assignments.
type Plan map[string]map[string][]int32

// Balancers in a fixed order.
const (
	Range = iota
	RoundRobin
	Sticky
	CoopSticky
)

var Names = []string{"range", "roundrobin", "sticky", "cooperative-sticky"}

func Balancer(kind int) kgo.GroupBalancer {
	switch kind {
	case Range:
		return kgo.RangeBalancer()
	case RoundRobin:
		return kgo.RoundRobinBalancer()
	case Sticky:
		return kgo.StickyBalancer()
	default:
		return kgo.CooperativeStickyBalancer()
	}
}

func cloneOwned(o map[string][]int32) map[string][]int32 {
	c := make(map[string][]int32, len(o))
	for t, ps := range o {
		c[t] = slices.Clone(ps)
	}
	return c
}

// InjectPartitionRacks stores the KIP-881 partition rack map in the member
// balancer exactly where balanceGroup stores it.
func InjectPartitionRacks(mb kgo.GroupMemberBalancer, racks map[string][]string) error {
	cb, ok := mb.(*kgo.ConsumerBalancer)
	if !ok {
		return fmt.Errorf("member balancer is %T, not *kgo.ConsumerBalancer", mb)
	}
	f := reflect.ValueOf(cb).Elem().FieldByName("partitionRacks")
	if !f.IsValid() || f.Type() != reflect.TypeOf(racks) {
		return fmt.Errorf("kgo.ConsumerBalancer has no field partitionRacks of type map[string][]string")
	}
	reflect.NewAt(f.Type(), unsafe.Pointer(f.UnsafeAddr())).Elem().Set(reflect.ValueOf(racks))
	return nil
}

// InfraError marks a harness/infrastructure problem (never a violation).
type InfraError struct{ Err error }

func (e *InfraError) Error() string { return "VERIF-INFRA: " + e.Err.Error() }

// Run balances in through b. The returned plan has an entry for every input
// member (possibly empty). A non-nil error that is not an *InfraError is a
// property violation ("assigns nothing else": unknown or repeated member ids in
// the sync assignments, unparsable assignments, balancer errors on valid input).
//
// The balancer runs on its own goroutine under a watchdog: balancing the small groups
// generated here takes micro- to milliseconds, so a call that has not returned after
// HangLimit of wall-clock time is reported as "produces no plan" (a violation with the
// input as replay) instead of letting the test binary run into its global timeout, which
// the driver could only report as inconclusive. The stuck goroutine cannot be stopped and
// keeps spinning until the process exits.
func Run(b kgo.GroupBalancer, in Input) (Plan, error) {
	type res struct {
		plan Plan
		err  error
	}
	done := make(chan res, 1)
	go func() {
		defer func() {
			if r := recover(); r != nil {
				done <- res{nil, fmt.Errorf("balancer panicked: %v\n%s", r, debug.Stack())}
			}
		}()
		p, err := run(b, in)
		done <- res{p, err}
	}()
	timer := time.NewTimer(HangLimit)
	defer timer.Stop()
	select {
	case r := <-done:
		return r.plan, r.err
	case <-timer.C:
		return nil, fmt.Errorf("balancer %s did not return within %v for a group of %d members (it normally takes milliseconds): no plan is produced", b.ProtocolName(), HangLimit, len(in.Members))
	}
}

// HangLimit is the wall-clock watchdog of Run.
var HangLimit = 15 * time.Second

func run(b kgo.GroupBalancer, in Input) (Plan, error) {
	members := make([]kmsg.JoinGroupResponseMember, 0, len(in.Members))
	for i := range in.Members {
		m := &in.Members[i]
		// joinGroupProtocols: topics sorted, partitions sorted, deep copies.
		meta := b.JoinGroupMetadata(slices.Clone(m.Topics), cloneOwned(m.Owned), m.Gen)
		if m.Rack != "" {
			// joinGroupProtocols injects the configured rack after the balancer
			// built its metadata.
			var cm kmsg.ConsumerMemberMetadata
			if err := cm.ReadFrom(meta); err != nil {
				return nil, fmt.Errorf("JoinGroupMetadata of %s is not readable as ConsumerMemberMetadata: %v", b.ProtocolName(), err)
			}
			if cm.Rack == nil {
				r := m.Rack
				cm.Rack = &r
				if cm.Version < 3 {
					cm.Version = 3
				}
				meta = cm.AppendTo(nil)
			}
		}
		jm := kmsg.NewJoinGroupResponseMember()
		jm.MemberID = m.ID
		if m.InstanceID != "" {
			s := m.InstanceID
			jm.InstanceID = &s
		}
		jm.ProtocolMetadata = meta
		members = append(members, jm)
	}
	// balanceGroup: sortJoinMembers (instance id first if non-nil, then member id).
	sort.SliceStable(members, func(i, j int) bool {
		l, r := &members[i], &members[j]
		if l.InstanceID != nil {
			if r.InstanceID == nil {
				return true
			}
			return *l.InstanceID < *r.InstanceID
		}
		if r.InstanceID != nil {
			return false
		}
		return l.MemberID < r.MemberID
	})

	mb, _, err := b.MemberBalancer(members)
	if err != nil {
		return nil, fmt.Errorf("MemberBalancer failed on metadata produced by JoinGroupMetadata: %v", err)
	}
	if in.PartRacks != nil {
		if err := InjectPartitionRacks(mb, in.PartRacks); err != nil {
			return nil, &InfraError{err}
		}
	}
	counts := make(map[string]int32, len(in.Counts))
	for t, n := range in.Counts {
		counts[t] = n
	}
	var into kgo.IntoSyncAssignment
	if oe, ok := mb.(kgo.GroupMemberBalancerOrError); ok {
		if into, err = oe.BalanceOrError(counts); err != nil {
			return nil, fmt.Errorf("BalanceOrError: %v", err)
		}
	} else {
		into = mb.Balance(counts)
	}
	if into == nil {
		return nil, fmt.Errorf("balancer returned a nil plan")
	}
	known := make(map[string]bool, len(in.Members))
	plan := make(Plan, len(in.Members))
	for i := range in.Members {
		known[in.Members[i].ID] = true
		plan[in.Members[i].ID] = map[string][]int32{}
	}
	seen := make(map[string]bool, len(in.Members))
	for _, a := range into.IntoSyncAssignment() {
		if !known[a.MemberID] {
			return nil, fmt.Errorf("sync assignment for unknown member %q", a.MemberID)
		}
		if seen[a.MemberID] {
			return nil, fmt.Errorf("two sync assignments for member %q", a.MemberID)
		}
		seen[a.MemberID] = true
		got, err := b.ParseSyncAssignment(a.MemberAssignment)
		if err != nil {
			return nil, fmt.Errorf("ParseSyncAssignment(%q): %v", a.MemberID, err)
		}
		mp := plan[a.MemberID]
		for t, ps := range got {
			if _, dup := mp[t]; dup {
				return nil, fmt.Errorf("member %q: topic %q twice in one assignment", a.MemberID, t)
			}
			mp[t] = slices.Clone(ps)
		}
	}
	return plan, nil
}

// ---------------------------------------------------------------- validity

type tp struct {
	t string
	p int32
}

func subscribes(m *Member, t string) bool { return slices.Contains(m.Topics, t) }

// Claims returns, for partition (t,p), the highest claimed generation and the
// number of claimants among the members of in (claims are what JoinGroupMetadata
// was given as currentAssignment).
func claimIndex(in Input) map[tp][]int {
	idx := make(map[tp][]int)
	for i := range in.Members {
		for t, ps := range in.Members[i].Owned {
			for _, p := range ps {
				k := tp{t, p}
				if !slices.Contains(idx[k], i) {
					idx[k] = append(idx[k], i)
				}
			}
		}
	}
	return idx
}

// Stats describe what a valid plan looked like (for evidence classes).
type Stats struct {
	Assignable int // partitions of subscribed, existing topics
	Withheld   int // cooperative: partitions left unassigned (in transit)
}

// CheckValid is the C25 oracle. cooperative=true allows a partition to stay
// unassigned only if some member currently owns it (a claimant with the maximum
// claimed generation exists) - that owner is then not assigned the partition,
// i.e. the partition is moving away from it.
func CheckValid(in Input, plan Plan, cooperative bool) (Stats, error) {
	var st Stats
	byID := make(map[string]*Member, len(in.Members))
	for i := range in.Members {
		byID[in.Members[i].ID] = &in.Members[i]
	}
	owner := make(map[tp]string)
	ids := make([]string, 0, len(plan))
	for id := range plan {
		ids = append(ids, id)
	}
	sort.Strings(ids)
	for _, id := range ids {
		m := byID[id]
		if m == nil {
			return st, fmt.Errorf("plan names unknown member %q", id)
		}
		ts := make([]string, 0, len(plan[id]))
		for t := range plan[id] {
			ts = append(ts, t)
		}
		sort.Strings(ts)
		for _, t := range ts {
			ps := plan[id][t]
			if len(ps) == 0 {
				continue
			}
			n, exists := in.Counts[t]
			if !exists {
				return st, fmt.Errorf("member %s is assigned %s%v but the topic is not in the partition-count map", id, t, ps)
			}
			if !subscribes(m, t) {
				return st, fmt.Errorf("member %s is assigned %s%v but is not subscribed to %s (subscription %v)", id, t, ps, t, m.Topics)
			}
			for _, p := range ps {
				if p < 0 || p >= n {
					return st, fmt.Errorf("member %s is assigned %s[%d] but the topic has %d partitions", id, t, p, n)
				}
				if o, dup := owner[tp{t, p}]; dup {
					return st, fmt.Errorf("%s[%d] is assigned twice: to %s and to %s", t, p, o, id)
				}
				owner[tp{t, p}] = id
			}
		}
	}
	var claims map[tp][]int
	subscribed := map[string]bool{}
	for i := range in.Members {
		for _, t := range in.Members[i].Topics {
			subscribed[t] = true
		}
	}
	sts := make([]string, 0, len(subscribed))
	for t := range subscribed {
		sts = append(sts, t)
	}
	sort.Strings(sts)
	for _, t := range sts {
		n := in.Counts[t] // 0 if the topic does not exist
		for p := int32(0); p < n; p++ {
			st.Assignable++
			if _, ok := owner[tp{t, p}]; ok {
				continue
			}
			if !cooperative {
				return st, fmt.Errorf("%s[%d] is subscribed but assigned to nobody", t, p)
			}
			if claims == nil {
				claims = claimIndex(in)
			}
			if len(claims[tp{t, p}]) == 0 {
				return st, fmt.Errorf("cooperative: %s[%d] is assigned to nobody although no member currently owns it (nothing to wait for)", t, p)
			}
			st.Withheld++
		}
	}
	return st, nil
}

// ---------------------------------------------------------------- optimality

// Loads returns the number of partitions per member index.
func Loads(in Input, plan Plan) []int {
	l := make([]int, len(in.Members))
	for i := range in.Members {
		for _, ps := range plan[in.Members[i].ID] {
			l[i] += len(ps)
		}
	}
	return l
}

// Move is one step of a chain: member From gives partition T[P] to member To.
type Move struct {
	From, To int
	T        string
	P        int32
}

// FindChain searches for a chain of moves u0 <- u1 <- ... <- uk (ui takes from
// ui+1 one partition of a topic ui subscribes to) with load(uk) >= load(u0)+2.
// Applying the chain raises load(u0) by one, lowers load(uk) by one and leaves
// every other load unchanged. nil means the plan is optimally balanced in the
// sense of property C26. The moves are returned from uk's side first.
func FindChain(in Input, plan Plan) []Move {
	n := len(in.Members)
	loads := Loads(in, plan)
	// holds[v][t] = one witness partition of topic t held by v
	holds := make([]map[string]int32, n)
	for i := range in.Members {
		holds[i] = map[string]int32{}
		for t, ps := range plan[in.Members[i].ID] {
			if len(ps) > 0 {
				holds[i][t] = slices.Min(ps)
			}
		}
	}
	for u0 := 0; u0 < n; u0++ {
		parent := make([]int, n)
		viaT := make([]string, n)
		viaP := make([]int32, n)
		for i := range parent {
			parent[i] = -2
		}
		parent[u0] = -1
		queue := []int{u0}
		for len(queue) > 0 {
			u := queue[0]
			queue = queue[1:]
			for _, t := range in.Members[u].Topics {
				for v := 0; v < n; v++ {
					if parent[v] != -2 {
						continue
					}
					p, ok := holds[v][t]
					if !ok {
						continue
					}
					parent[v], viaT[v], viaP[v] = u, t, p
					if loads[v] >= loads[u0]+2 {
						var chain []Move
						for x := v; parent[x] >= 0; x = parent[x] {
							chain = append(chain, Move{From: x, To: parent[x], T: viaT[x], P: viaP[x]})
						}
						return chain
					}
					queue = append(queue, v)
				}
			}
		}
	}
	return nil
}

// AugmentingChain renders FindChain's result ("" = optimally balanced).
func AugmentingChain(in Input, plan Plan) string {
	chain := FindChain(in, plan)
	if chain == nil {
		return ""
	}
	loads := Loads(in, plan)
	var sb strings.Builder
	for _, mv := range chain {
		fmt.Fprintf(&sb, "%s(load %d) gives %s[%d] to %s(load %d); ", in.Members[mv.From].ID, loads[mv.From], mv.T, mv.P, in.Members[mv.To].ID, loads[mv.To])
	}
	return sb.String()
}

// Optimize applies augmenting chains until none is left (each application
// lowers the sum of squared loads, so this terminates). plan is modified.
func Optimize(in Input, plan Plan) {
	for {
		chain := FindChain(in, plan)
		if chain == nil {
			return
		}
		for _, mv := range chain {
			from, to := plan[in.Members[mv.From].ID], plan[in.Members[mv.To].ID]
			ps := from[mv.T]
			i := slices.Index(ps, mv.P)
			from[mv.T] = slices.Delete(slices.Clone(ps), i, i+1)
			if len(from[mv.T]) == 0 {
				delete(from, mv.T)
			}
			to[mv.T] = append(slices.Clone(to[mv.T]), mv.P)
			slices.Sort(to[mv.T])
		}
	}
}

// SamePlan reports whether two plans assign exactly the same partitions to the
// same members (order-insensitive); if not it names one difference.
func SamePlan(in Input, a, b Plan) string {
	for i := range in.Members {
		id := in.Members[i].ID
		ts := map[string]bool{}
		for t := range a[id] {
			ts[t] = true
		}
		for t := range b[id] {
			ts[t] = true
		}
		names := make([]string, 0, len(ts))
		for t := range ts {
			names = append(names, t)
		}
		sort.Strings(names)
		for _, t := range names {
			x, y := slices.Clone(a[id][t]), slices.Clone(b[id][t])
			slices.Sort(x)
			slices.Sort(y)
			if !slices.Equal(x, y) {
				return fmt.Sprintf("member %s topic %s: %v vs %v", id, t, x, y)
			}
		}
	}
	return ""
}

// ---------------------------------------------------------------- cooperative model

// CheckHandoff is the per-round C27 safety oracle: plan must not give a
// partition to a member that has no current claim on it while another member's
// claim on it is current. A claim (m,p) is current when m presented p as owned
// in this round's join with the highest generation among all claimants of p
// (several members tie => all of them are current; one of them keeping p while
// the others are told to revoke creates no new overlap, as AdjustCooperative's
// doc comment states).
func CheckHandoff(in Input, plan Plan) error {
	claims := claimIndex(in)
	for i := range in.Members {
		m := &in.Members[i]
		ts := make([]string, 0, len(plan[m.ID]))
		for t := range plan[m.ID] {
			ts = append(ts, t)
		}
		sort.Strings(ts)
		for _, t := range ts {
			for _, p := range plan[m.ID][t] {
				cl := claims[tp{t, p}]
				if len(cl) == 0 {
					continue
				}
				maxGen := in.Members[cl[0]].Gen
				for _, c := range cl[1:] {
					if g := in.Members[c].Gen; g > maxGen {
						maxGen = g
					}
				}
				selfCurrent := false
				for _, c := range cl {
					if c == i && in.Members[c].Gen == maxGen {
						selfCurrent = true
					}
				}
				if selfCurrent {
					continue
				}
				for _, c := range cl {
					if c != i && in.Members[c].Gen == maxGen {
						return fmt.Errorf("%s[%d] is given to %s (own claim: %s) while %s still owns it with the current claim (generation %d) and was not told to revoke it earlier",
							t, p, m.ID, describeClaim(m, t, p), in.Members[c].ID, maxGen)
					}
				}
			}
		}
	}
	return nil
}

func describeClaim(m *Member, t string, p int32) string {
	if slices.Contains(m.Owned[t], p) {
		return fmt.Sprintf("stale, generation %d", m.Gen)
	}
	return "none"
}

// ApplyAssignment mirrors what a cooperative kgo member does with a sync
// assignment (handleSyncResp -> setupAssignedAndHeartbeat): lost = last \ now,
// lastAssigned = now, generation = the join's generation; a member that lost
// something revokes it and rejoins. It returns whether the member lost anything.
func ApplyAssignment(m *Member, assigned map[string][]int32, generation int32) (lost map[string][]int32) {
	lost = map[string][]int32{}
	for t, ps := range m.Owned {
		for _, p := range ps {
			if !slices.Contains(assigned[t], p) {
				lost[t] = append(lost[t], p)
			}
		}
	}
	now := make(map[string][]int32, len(assigned))
	for t, ps := range assigned {
		if len(ps) == 0 {
			continue
		}
		c := slices.Clone(ps)
		slices.Sort(c) // handleSyncResp sorts
		now[t] = c
	}
	m.Owned = now
	m.Gen = generation
	return lost
}

// RoundResult is one simulated rebalance.
type RoundResult struct {
	In      Input // the join state of this round (claims as presented)
	Plan    Plan
	AnyLost bool // some member had to revoke => the group rebalances again
}

// Round runs one rebalance over members (mutated in place per ApplyAssignment).
func Round(b kgo.GroupBalancer, members []Member, counts map[string]int32, generation int32) (RoundResult, error) {
	in := Input{Members: CloneMembers(members), Counts: counts}
	plan, err := Run(b, in)
	if err != nil {
		return RoundResult{In: in}, err
	}
	rr := RoundResult{In: in, Plan: plan}
	for i := range members {
		if lost := ApplyAssignment(&members[i], plan[members[i].ID], generation); len(lost) > 0 {
			rr.AnyLost = true
		}
	}
	return rr, nil
}

func CloneMembers(ms []Member) []Member {
	out := make([]Member, len(ms))
	for i, m := range ms {
		out[i] = m
		out[i].Topics = slices.Clone(m.Topics)
		out[i].Owned = cloneOwned(m.Owned)
	}
	return out
}

// Superset reports "" if every partition in small is also in big for every member.
func Superset(in Input, big, small Plan) string {
	for i := range in.Members {
		id := in.Members[i].ID
		for t, ps := range small[id] {
			for _, p := range ps {
				if !slices.Contains(big[id][t], p) {
					return fmt.Sprintf("member %s had %s[%d] after the previous rebalance and does not have it now", id, t, p)
				}
			}
		}
	}
	return ""
}

// ---------------------------------------------------------------- printing

func (in Input) String() string {
	var sb strings.Builder
	ts := make([]string, 0, len(in.Counts))
	for t := range in.Counts {
		ts = append(ts, t)
	}
	sort.Strings(ts)
	sb.WriteString("counts{")
	for _, t := range ts {
		fmt.Fprintf(&sb, "%s:%d ", t, in.Counts[t])
	}
	sb.WriteString("} members[")
	for _, m := range in.Members {
		fmt.Fprintf(&sb, "{%s", m.ID)
		if m.InstanceID != "" {
			fmt.Fprintf(&sb, " inst=%s", m.InstanceID)
		}
		fmt.Fprintf(&sb, " subs=%v gen=%d", m.Topics, m.Gen)
		if len(m.Owned) > 0 {
			fmt.Fprintf(&sb, " owned=%s", fmtTP(m.Owned))
		}
		if m.Rack != "" {
			fmt.Fprintf(&sb, " rack=%s", m.Rack)
		}
		sb.WriteString("} ")
	}
	sb.WriteString("]")
	if in.PartRacks != nil {
		fmt.Fprintf(&sb, " partRacks=%v", in.PartRacks)
	}
	return sb.String()
}

func fmtTP(m map[string][]int32) string {
	ts := make([]string, 0, len(m))
	for t := range m {
		ts = append(ts, t)
	}
	sort.Strings(ts)
	var sb strings.Builder
	for _, t := range ts {
		fmt.Fprintf(&sb, "%s%v", t, m[t])
	}
	return sb.String()
}

func (p Plan) String() string {
	ids := make([]string, 0, len(p))
	for id := range p {
		ids = append(ids, id)
	}
	sort.Strings(ids)
	var sb strings.Builder
	for _, id := range ids {
		fmt.Fprintf(&sb, "%s{%s} ", id, fmtTP(p[id]))
	}
	return sb.String()
}

// ---------------------------------------------------------------- failing

// TB is the part of testing.TB / *rapid.T the helpers need.
type TB interface {
	Helper()
	Fatalf(format string, args ...any)
}

// Witness is the replay unit of the balancer checks (JSON).
type Witness struct {
	Check    string  `json:"check"`
	Balancer string  `json:"balancer"`
	What     string  `json:"what"`
	Input    Input   `json:"input"`
	Plan     Plan    `json:"plan,omitempty"`
	Rounds   []Input `json:"rounds,omitempty"`
	Text     string  `json:"text"`
}

// NextGen returns a generation strictly above every member's generation.
func NextGen(ms []Member) int32 {
	g := int32(0)
	for _, m := range ms {
		if m.Gen >= g {
			g = m.Gen + 1
		}
	}
	return g
}

// Settle runs rebalance rounds with unchanged membership, subscriptions and
// partition counts until a round in which no member loses anything (then no
// member rejoins) or maxRounds is reached. members is mutated.
func Settle(b kgo.GroupBalancer, members []Member, counts map[string]int32, maxRounds int) (rounds []RoundResult, stable bool, err error) {
	gen := NextGen(members)
	for r := 0; r < maxRounds; r++ {
		rr, err := Round(b, members, counts, gen)
		rounds = append(rounds, rr)
		if err != nil {
			return rounds, false, err
		}
		if !rr.AnyLost {
			return rounds, true, nil
		}
		gen++
	}
	return rounds, false, nil
}
