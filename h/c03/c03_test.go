package c03

import (
	"context"
	"errors"
	"fmt"
	"sync/atomic"
	"testing"
	"time"

	"github.com/twmb/franz-go/pkg/kerr"
	"github.com/twmb/franz-go/pkg/kgo"
	"pgregory.net/rapid"

	"verif/h/bubble"
	"verif/h/ev"
	"verif/h/wl"
)

func TestMain(m *testing.M) { ev.Main(m, "C03") }

// preBuffer reports whether err may be a rejection issued before the record was
// accepted into the buffer (such records never count towards the limits).
func preBuffer(err error) bool {
	return err != nil && (errors.Is(err, kgo.ErrMaxBuffered) || errors.Is(err, context.Canceled) || errors.Is(err, context.DeadlineExceeded) || errors.Is(err, kgo.ErrClientClosed) || errors.Is(err, kerr.MessageTooLarge))
}

func TestBufferLimitsAndFlush(t *testing.T) {
	bufferLimits(t, wl.ProdFocus{SmallLimits: true, NoFaults: true, DelayFaults: true, MutateInPromise: true})
}

// TestBufferLimitsBurst searches the sub-domain in which many producing goroutines start at
// the same instant against a tiny buffer, so that several are parked on the limit and woken
// together (the window in which a lost or early wake-up shows).
func TestBufferLimitsBurst(t *testing.T) {
	bufferLimits(t, wl.ProdFocus{SmallLimits: true, NoFaults: true, DelayFaults: true, MutateInPromise: true, Burst: true})
}

func bufferLimits(t *testing.T, focus wl.ProdFocus) {
	rapid.Check(t, func(rt *rapid.T) {
		plan := wl.GenProdPlan(rt, focus)
		var o *wl.ProdObs
		var blockedSeen, cancelWhileBlocked, flushOverlap bool
		bubble.Run(t, rt, func(e *bubble.Env) {
			o = wl.RunProd(e, plan)
			blockedSeen, cancelWhileBlocked, flushOverlap = check(rt, o)
		})
		nt := o.LimitHit || blockedSeen
		ev.Case(o.Digest(), nt)
		if o.LimitHit {
			ev.Class("limit-reached")
		}
		if blockedSeen {
			ev.Class("produce-blocked")
		}
		if cancelWhileBlocked {
			ev.Class("ctx-ended-while-blocked")
		}
		if flushOverlap {
			ev.Class("flush-overlapped-producing")
		}
		if plan.Cfg.Manual {
			ev.Class("manual-flushing")
		}
		if focus.Burst {
			ev.Class("burst-plan")
		}
		if plan.Cfg.MaxBufBytes > 0 {
			ev.Class("bytes-limit")
		}
		ev.ClassN("records", int64(len(o.Recs)))
		ev.ClassN("quiescent-samples", int64(len(o.Quiescents)))
		if nt {
			ev.SampleIf(func() any {
				return map[string]any{"steps": o.StepKinds, "cfg": fmt.Sprintf("%+v", plan.Cfg), "records": len(o.Recs), "blocked_seen": blockedSeen, "ctx_ended_while_blocked": cancelWhileBlocked}
			})
		}
	})
}

func check(rt *rapid.T, o *wl.ProdObs) (blockedSeen, cancelWhileBlocked, flushOverlap bool) {
	fail := func(format string, a ...any) {
		rt.Fatalf("%s\nplan: %s\nhistory tail:\n%s", fmt.Sprintf(format, a...), o.Plan.Brief(), o.Log.Dump(50))
	}
	cfg := o.Plan.Cfg
	// (1) gauge never exceeds limit + calls possibly blocked
	if len(o.GaugeViolations) > 0 {
		fail("buffer gauge exceeded the limit: %s", o.GaugeViolations[0])
	}
	// (2) accepted-and-unpromised records never exceed the limits, swept over the log.
	type ev struct {
		at    int
		delta int64
		bytes int64
	}
	var evs []ev
	for _, rs := range o.Recs {
		if rs.Mode == "sync" || rs.CallEnd < 0 || atomic.LoadInt32(&rs.Promises) == 0 {
			continue
		}
		if preBuffer(rs.PromiseErr) || rs.Topic == "" {
			continue
		}
		if rs.PromiseN > rs.CallEnd {
			evs = append(evs, ev{rs.CallEnd, 1, int64(rs.BytesLen)}, ev{rs.PromiseN, -1, -int64(rs.BytesLen)})
		}
	}
	// sort by log index
	for i := 1; i < len(evs); i++ {
		for j := i; j > 0 && evs[j].at < evs[j-1].at; j-- {
			evs[j], evs[j-1] = evs[j-1], evs[j]
		}
	}
	var cur, curB int64
	for _, e := range evs {
		cur += e.delta
		curB += e.bytes
		if cfg.MaxBufRecs > 0 && cur > int64(cfg.MaxBufRecs) {
			fail("at log #%d: %d records accepted by Produce with promise not yet run > MaxBufferedRecords %d", e.at, cur, cfg.MaxBufRecs)
		}
		if cfg.MaxBufBytes > 0 && curB > int64(cfg.MaxBufBytes) {
			fail("at log #%d: %d bytes accepted by Produce with promise not yet run > MaxBufferedBytes %d", e.at, curB, cfg.MaxBufBytes)
		}
	}
	// (3) TryProduce never blocks; Produce under ManualFlushing never blocks
	for _, rs := range o.Recs {
		d, ok := o.CallDur[rs.ID]
		if !ok {
			continue
		}
		if rs.Mode == "try" && d != 0 {
			fail("TryProduce of record %d took %v of virtual time", rs.ID, d)
		}
		if rs.Mode == "produce" && d != 0 {
			blockedSeen = true
			if cfg.Manual {
				fail("Produce of record %d blocked for %v under ManualFlushing (must fail with ErrMaxBuffered)", rs.ID, d)
			}
		}
		if errors.Is(rs.PromiseErr, kgo.ErrMaxBuffered) && rs.Mode == "produce" && !cfg.Manual {
			fail("blocking Produce of record %d failed with ErrMaxBuffered without ManualFlushing", rs.ID)
		}
	}
	// (4) every produce call returned; a blocked call whose ctx ended returned promptly
	if !o.BlockedProduceReturnedInTime {
		fail("some Produce/ProduceSync call never returned")
	}
	stepOf := map[int]wl.ProdStep{}
	for i, s := range o.Plan.Steps {
		stepOf[i] = s
	}
	for _, rs := range o.Recs {
		d, ok := o.CallDur[rs.ID]
		if ok && rs.Mode == "produce" && d > 0 {
			if errors.Is(rs.PromiseErr, context.DeadlineExceeded) {
				cancelWhileBlocked = true
			}
		}
	}
	// (5) Flush returning nil => every record whose produce call returned before the flush began was promised before the flush returned
	evsLog := o.Log.Snapshot()
	_ = evsLog
	for fi, f := range o.Flushes {
		if !f.Returned {
			fail("flush #%d never returned although nothing is buffered at the end", fi)
		}
		if f.Err != nil {
			continue
		}
		for _, rs := range o.Recs {
			if rs.Mode == "sync" || rs.CallEnd < 0 || rs.CallEnd > f.Start {
				continue
			}
			if preBuffer(rs.PromiseErr) && rs.PromiseN > f.End {
				continue // a rejected record was never buffered; its promise is not what Flush waits for
			}
			if atomic.LoadInt32(&rs.Promises) == 0 || rs.PromiseN > f.End {
				fail("flush #%d (log #%d..#%d) returned nil but record %d, produced at log #%d before it began, was promised only at #%d", fi, f.Start, f.End, rs.ID, rs.CallEnd, rs.PromiseN)
			}
		}
		// (5') a produce call that was durably blocked inside Produce at a quiescent point before
		// the flush began counts as produced before it: Flush waits for blocked records too
		for _, q := range o.Quiescents {
			if q.LogN > f.Start || q.PendingCalls == 0 {
				continue
			}
			for _, rs := range o.Recs {
				if rs.Mode != "produce" || rs.CallStart >= q.LogN || (rs.CallEnd >= 0 && rs.CallEnd < q.LogN) {
					continue
				}
				if preBuffer(rs.PromiseErr) {
					continue
				}
				if atomic.LoadInt32(&rs.Promises) == 0 || rs.PromiseN > f.End {
					fail("flush #%d (log #%d..#%d) returned nil but record %d, whose Produce was blocked at the quiescent point #%d before the flush began, was promised only at #%d", fi, f.Start, f.End, rs.ID, q.LogN, rs.PromiseN)
				}
			}
		}
		for _, rs := range o.Recs {
			if rs.CallStart < f.End && rs.CallEnd > f.Start {
				flushOverlap = true
			}
		}
	}
	// (6) quiescent samples: nothing buffered => no flush pending and no produce call blocked
	for _, q := range o.Quiescents {
		if q.Gauge == 0 && q.PendingFlushes > 0 {
			fail("quiescent at log #%d: nothing buffered but %d Flush call(s) still blocked", q.LogN, q.PendingFlushes)
		}
		if q.Gauge == 0 && q.PendingCalls > 0 {
			fail("quiescent at log #%d: nothing buffered but %d produce call(s) still blocked", q.LogN, q.PendingCalls)
		}
		if q.Gauge == 0 && q.Bytes != 0 {
			fail("quiescent at log #%d: BufferedProduceRecords=0 but BufferedProduceBytes=%d", q.LogN, q.Bytes)
		}
	}
	// (7) final: healed environment (no faults in this focus): the final flush completes
	if o.Plan.Final == "flushclose" && !o.FinalFlushReturned {
		fail("final Flush did not return within %v of virtual time with no faults active", wl.Bound+time.Minute)
	}
	return
}
