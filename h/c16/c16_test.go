package c16

import (
	"encoding/binary"
	"encoding/hex"
	"flag"
	"fmt"
	"hash/fnv"
	"os"
	"path/filepath"
	"reflect"
	"runtime"
	"sort"
	"strconv"
	"sync"
	"sync/atomic"
	"testing"
	"time"

	"pgregory.net/rapid"

	"verif/h/c15/registry"
	"verif/h/ev"
	"verif/h/krammar"
)

// The decoders are exercised on one goroutine with GOMAXPROCS(1): ReadMemStats (which
// stops the world and flushes the allocation caches) is then cheap and TotalAlloc
// deltas are exactly this goroutine's allocations. The fuzz coordinator process (which runs no decodes) keeps its Ps.
func TestMain(m *testing.M) {
	flag.Parse()
	coordinator := false
	if f := flag.Lookup("test.fuzz"); f != nil && f.Value.String() != "" {
		coordinator = true
		if w := flag.Lookup("test.fuzzworker"); w != nil && w.Value.String() == "true" {
			coordinator = false
		}
	}
	if !coordinator {
		runtime.GOMAXPROCS(1)
		go watchdog()
	}
	ev.Main(m, "C16")
}

// A decode that does not return is never a verdict about the property; the watchdog
// only turns it into a diagnosable infrastructure failure (exit 2) that names the
// input, instead of an anonymous go test timeout. The tag loops of the generated
// readers spin up to 2^32 times when a tag count claims so (see maxTagLoop); such
// inputs are pre-screened with krammar.Scan, and this fires only if the pre-screen
// and the readers disagree about where a tag count sits.
var (
	decodeSeq atomic.Uint64
	curInput  atomic.Pointer[inputRef]
)

type inputRef struct {
	c      krammar.Cell
	in     []byte
	unsafe bool
}

// stopMarker is created (in the evidence directory, which the driver empties before
// every run and reads only frag-*.json from) by the first shard that reports a
// violation. The other shards then stop: against a decoder that lost a length guard
// they would otherwise grind through multi-gigabyte allocations until their timeout,
// long after the verdict is known.
func stopMarker() string {
	// (not during native fuzzing: the fuzz coordinator stops its workers itself)
	if d := os.Getenv("VERIF_EV_DIR"); d != "" && os.Getenv("VERIF_FUZZ") == "" {
		return filepath.Join(d, "c16-violation-reported")
	}
	return ""
}

var sawViolation atomic.Bool

func markViolation() {
	sawViolation.Store(true) // a shard that reports a violation itself always finishes
	if p := stopMarker(); p != "" {
		os.WriteFile(p, []byte(strconv.Itoa(os.Getpid())), 0o644)
	}
}

func watchdog() {
	last, same := uint64(0), 0
	marker := stopMarker()
	for {
		time.Sleep(time.Second)
		if marker != "" {
			if _, err := os.Stat(marker); err == nil && !sawViolation.Load() {
				fmt.Println("VERIF-INFRA: C16 shard stopped because another shard reported a violation")
				os.Exit(2)
			}
		}
		if n := decodeSeq.Load(); n != last || n%2 == 0 {
			last, same = n, 0
			continue
		}
		if same++; same >= 90 {
			what := "?"
			if p := curInput.Load(); p != nil {
				what = fmt.Sprintf("%s version %d unsafe=%v input %x", p.c.B.Name, p.c.V, p.unsafe, capBytes(p.in, 2000))
			}
			fmt.Printf("VERIF-INFRA: C16 one decode call has been running for %d s: %s\n", same, what)
			os.Exit(2)
		}
	}
}

// Allocation bound: TotalAlloc delta around one ReadFrom/UnsafeReadFrom call must be
// <= allocK0 + F(type) * len(input), F(type) = allocFactor * (largest reflect size of
// any slice element / pointed-to type reachable from the type, at least 16 bytes).
const (
	allocK0     = 64 << 10
	allocFactor = 64
	// inputs whose tag count (as the readers will parse it) exceeds this are not
	// executed: the tag loops run that many iterations even on an 11 byte input
	// (minutes of CPU for 2^32), which the property does not speak about.
	maxTagLoop = 1 << 12
)

var (
	loadOnce sync.Once
	schema   *krammar.Schema
	binds    []*krammar.Binding
	grid     []krammar.Cell
	factor   map[string]uint64
	loadErr  error
)

func load(t testing.TB) {
	loadOnce.Do(func() {
		schema, loadErr = krammar.Load(ev.Repo())
		if loadErr != nil {
			return
		}
		var problems []string
		binds, problems = krammar.Bind(schema, registry.Types)
		_ = problems // definition/type mismatches are C15's business
		grid = krammar.Grid(binds)
		factor = map[string]uint64{}
		for _, b := range binds {
			sz, _ := krammar.MaxElemSize(b.Type)
			factor[b.Name] = allocFactor * uint64(sz)
		}
	})
	if loadErr != nil {
		fmt.Println("VERIF-INFRA: cannot read the definitions:", loadErr)
		t.Fatalf("VERIF-INFRA: %v", loadErr)
	}
	if len(grid) == 0 {
		fmt.Println("VERIF-INFRA: empty grid")
		t.Fatalf("VERIF-INFRA: empty grid")
	}
}

type fataler interface {
	Fatalf(string, ...any)
}

// decodeRes is the outcome of one decode call.
type decodeRes struct {
	p      any
	err    error
	pan    any
	alloc  uint64
	stack  string
	unsafe bool
}

var ms1, ms2 runtime.MemStats

var traceInputs = os.Getenv("VERIF_C16_TRACE") != ""

func decode(c krammar.Cell, in []byte, unsafe, measure bool) (r decodeRes) {
	p := c.B.New()
	if c.B.Kind != "standalone" {
		c.B.SetVersion(p, c.V)
	}
	src := make([]byte, len(in)) // exact capacity: nothing valid lies behind the input
	copy(src, in)
	r.p, r.unsafe = p, unsafe
	curInput.Store(&inputRef{c, in, unsafe})
	decodeSeq.Add(1) // odd: a decode is running
	defer decodeSeq.Add(1)
	if measure {
		runtime.ReadMemStats(&ms1)
	}
	func() {
		defer func() {
			if x := recover(); x != nil {
				r.pan = x
				buf := make([]byte, 4096)
				r.stack = string(buf[:runtime.Stack(buf, false)])
			}
		}()
		if unsafe {
			r.err = p.(krammar.UnsafeCodec).UnsafeReadFrom(src)
		} else {
			r.err = p.(krammar.Codec).ReadFrom(src)
		}
	}()
	if measure {
		runtime.ReadMemStats(&ms2)
		r.alloc = ms2.TotalAlloc - ms1.TotalAlloc
	}
	return r
}

// versionOf returns the version at which a decoded value is to be read as a tree.
func versionOf(c krammar.Cell, p any) int {
	switch {
	case c.B.InferredVersion:
		if reflect.ValueOf(p).Elem().FieldByName("Generation").Int() != -1 {
			return 1
		}
		return 0
	case c.B.S.WithVersionField:
		return int(reflect.ValueOf(p).Elem().FieldByName("Version").Int())
	}
	return c.V
}

// tooManyTagIterations pre-screens an input (see maxTagLoop).
func tooManyTagIterations(c krammar.Cell, in []byte) bool {
	if c.B.S.FlexibleAt < 0 {
		return false
	}
	n, _ := krammar.Scan(c.B.S, c.V, in)
	return n > maxTagLoop
}

// evalInput runs the C16 oracle for one input against ReadFrom and UnsafeReadFrom.
// It returns a violation description or "", and whether a decode succeeded.
func evalInput(c krammar.Cell, in []byte) (msg string, decoded bool) {
	if traceInputs {
		// diagnosing a stalled run: the last line printed is the input being decoded
		fmt.Fprintf(os.Stderr, "C16-TRACE %s v%d %x\n", c.B.Name, c.V, in)
	}
	if tooManyTagIterations(c, in) {
		ev.Class("skipped_tag_count_over_4096")
		return "", false
	}
	bound := uint64(allocK0) + factor[c.B.Name]*uint64(len(in))
	for _, unsafe := range []bool{false, true} {
		name := "ReadFrom"
		if unsafe {
			name = "UnsafeReadFrom"
		}
		r := decode(c, in, unsafe, true)
		if r.pan != nil {
			return fmt.Sprintf("%s panicked: %v\n%s", name, r.pan, r.stack), false
		}
		if r.alloc > bound {
			return fmt.Sprintf("%s of %d input bytes allocated %d bytes > bound %d (K0 %d + F %d * len)", name, len(in), r.alloc, bound, allocK0, factor[c.B.Name]), false
		}
		allocBucket(r.alloc, bound)
		if r.err != nil {
			continue
		}
		decoded = true
		// re-encode, decode again, compare
		var re []byte
		var pan any
		func() {
			defer func() { pan = recover() }()
			re = r.p.(krammar.Codec).AppendTo(nil)
		}()
		if pan != nil {
			return fmt.Sprintf("AppendTo of the value %s decoded panicked: %v", name, pan), true
		}
		if tooManyTagIterations(c, re) {
			ev.Class("skipped_tag_count_over_4096")
			continue
		}
		r2 := decode(c, re, unsafe, false)
		if r2.pan != nil {
			return fmt.Sprintf("%s of the re-encoded value panicked: %v\n%s", name, r2.pan, r2.stack), true
		}
		if r2.err != nil {
			return fmt.Sprintf("%s accepted the input, but fails on the re-encoding %x of the decoded value: %v", name, capBytes(re, 400), r2.err), true
		}
		v1, v2 := versionOf(c, r.p), versionOf(c, r2.p)
		if v1 != v2 {
			return fmt.Sprintf("%s: version %d became %d after re-encode and decode", name, v1, v2), true
		}
		t1, err := c.B.Tree(r.p, v1)
		if err != nil {
			return "harness: " + err.Error(), true
		}
		t2, err := c.B.Tree(r2.p, v1)
		if err != nil {
			return "harness: " + err.Error(), true
		}
		if d := krammar.Diff(t1, t2, c.B.Name); d != "" {
			return fmt.Sprintf("%s: decode(input) and decode(AppendTo(decode(input))) differ: %s (re-encoding %x)", name, d, capBytes(re, 400)), true
		}
	}
	return "", decoded
}

// allocBucket counts how close the measured allocation came to the bound (generator
// health: the bound is not vacuous if the upper buckets are populated).
func allocBucket(alloc, bound uint64) {
	switch pct := alloc * 100 / bound; {
	case pct >= 50:
		ev.Class("alloc_50_to_100_percent_of_bound")
	case pct >= 10:
		ev.Class("alloc_10_to_50_percent_of_bound")
	case pct >= 1:
		ev.Class("alloc_1_to_10_percent_of_bound")
	default:
		ev.Class("alloc_under_1_percent_of_bound")
	}
}

func capBytes(b []byte, n int) []byte {
	if len(b) > n {
		return b[:n]
	}
	return b
}

func digest(c krammar.Cell, in []byte) string {
	h := fnv.New64a()
	h.Write(in)
	return fmt.Sprintf("%s/v%d/%x/%d", c.B.Name, c.V, h.Sum64(), len(in))
}

// ---- derived inputs -----------------------------------------------------------------

func readLen(buf []byte, m krammar.Mark) int64 {
	switch m.Kind {
	case krammar.MLenI16:
		return int64(int16(binary.BigEndian.Uint16(buf[m.Off:])))
	case krammar.MLenI32:
		return int64(int32(binary.BigEndian.Uint32(buf[m.Off:])))
	}
	var u uint64
	for i := 0; i < m.Width; i++ {
		u |= uint64(buf[m.Off+i]&0x7f) << (7 * uint(i))
	}
	switch m.Kind {
	case krammar.MLenCompact:
		return int64(u) - 1
	case krammar.MLenVarint:
		return int64(u>>1) ^ -int64(u&1)
	}
	return int64(u)
}

func uvarint(u uint64) []byte {
	var out []byte
	for u >= 0x80 {
		out = append(out, byte(u)|0x80)
		u >>= 7
	}
	return append(out, byte(u))
}

// rewrite returns buf with the length field at mark m replaced by val (-1 = null
// where the encoding has one), or nil if val cannot be expressed.
func rewrite(buf []byte, m krammar.Mark, val int64) []byte {
	var enc []byte
	switch m.Kind {
	case krammar.MLenI16:
		if val > 32767 || val < -32768 {
			return nil
		}
		enc = binary.BigEndian.AppendUint16(nil, uint16(int16(val)))
	case krammar.MLenI32:
		if val > 1<<31-1 || val < -(1<<31) {
			return nil
		}
		enc = binary.BigEndian.AppendUint32(nil, uint32(int32(val)))
	case krammar.MLenCompact:
		if val < -1 || val+1 > 1<<32-1 {
			return nil
		}
		enc = uvarint(uint64(val + 1))
	case krammar.MLenVarint:
		if val > 1<<31-1 || val < -(1<<31) {
			return nil
		}
		enc = uvarint(uint64(uint32((val << 1) ^ (val >> 31))))
	case krammar.MTagCount, krammar.MTagKey, krammar.MTagSize:
		if val < 0 || val > 1<<32-1 {
			return nil
		}
		enc = uvarint(uint64(val))
	default:
		return nil
	}
	out := make([]byte, 0, len(buf)+len(enc))
	out = append(out, buf[:m.Off]...)
	out = append(out, enc...)
	return append(out, buf[m.Off+m.Width:]...)
}

func isLen(k krammar.MarkKind) bool {
	switch k {
	case krammar.MLenI16, krammar.MLenI32, krammar.MLenCompact, krammar.MLenVarint, krammar.MTagCount, krammar.MTagSize:
		return true
	}
	return false
}

// pick returns at most max indices out of n: all of them if n <= max, else a drawn
// start and stride.
func pick(rt *rapid.T, label string, n, max int) []int {
	out := []int{}
	if n <= max {
		for i := 0; i < n; i++ {
			out = append(out, i)
		}
		return out
	}
	start := rapid.IntRange(0, n-1).Draw(rt, label+"Start")
	stride := n/max + 1
	for i := 0; i < max; i++ {
		out = append(out, (start+i*stride)%n)
	}
	return out
}

type derived struct {
	kind string
	data []byte
}

// Values a single length field is rewritten to. The moderate ones cannot make even a
// decoder without any length guard allocate more than ~2^20 elements, so such a
// decoder is reported through the allocation bound within the quick budget; the
// extreme ones (TestExtreme, run after everything else) would make it allocate
// gigabytes or spin for 2^31 iterations, which ends as an out-of-memory or timeout
// (infrastructure) instead of a violation.
const (
	moderateSteps = 12
	extremeSteps  = 8
)

func rewriteValue(m krammar.Mark, step int, extreme bool, cur, rem int64) (int64, bool) {
	if !extreme {
		switch step {
		case 0:
			return -1, true
		case 1:
			return 0, true
		case 2:
			return cur - 1, true
		case 3:
			return cur + 1, true
		case 4:
			return rem, true
		case 5:
			return rem + 1, true
		case 6:
			return 2*rem + 7, true
		case 7:
			return -2, true
		case 8:
			if m.Kind == krammar.MLenI16 {
				return -32768, true
			}
			return -(1 << 31), true
		case 9:
			if m.Kind == krammar.MLenI16 {
				return 32767, true
			}
			return 1 << 16, true
		case 10:
			return 1 << 20, true
		case 11:
			return rem - 1, true
		}
		return 0, false
	}
	if m.Kind == krammar.MLenI16 {
		return 0, false
	}
	switch step {
	case 0:
		return 1 << 24, true
	case 1:
		return 1 << 28, true
	case 2:
		return 1<<31 - 1, true
	case 3:
		return 1<<31 - 2, true
	case 4:
		return 1 << 31, true // compact/tag fields only: int32(uvarint) wraps
	case 5:
		return 1<<32 - 2, true // compact: uvarint 2^32-1
	case 6:
		return 1<<32 - 1, true // tag sizes / counts
	case 7:
		return 1<<31 + rem, true
	}
	return 0, false
}

// Phases of derived inputs. They are run by separate tests in this order (the runs use
// -test.failfast): a decoder that lost a length guard fails phaseModerate in every
// shard within seconds and cheaply (also while rapid shrinks), whereas bit flips,
// arbitrary bytes and extreme claims would make such a decoder allocate gigabytes or
// loop 2^30 times per input.
const (
	phaseModerate = iota
	phaseBitflip
	phaseExtreme
)

// derive builds the mutated and max-claim inputs from one valid encoding.
func derive(rt *rapid.T, enc *krammar.Enc, phase int) []derived {
	extreme := phase == phaseExtreme
	buf := enc.Buf
	var out []derived
	var lens []krammar.Mark
	cuts := map[int]bool{}
	for _, m := range enc.Marks {
		cuts[m.Off] = true
		if m.Width > 0 {
			cuts[m.Off+m.Width] = true
			cuts[m.Off+1] = true // inside the length field
		}
		if isLen(m.Kind) {
			lens = append(lens, m)
		}
	}
	if extreme {
		sel := pick(rt, "len", len(lens), 24)
		for step := 0; step < extremeSteps; step++ {
			for _, i := range sel {
				m := lens[i]
				if m.Kind == krammar.MTagCount {
					continue // counts above maxTagLoop are pre-screened anyway
				}
				val, ok := rewriteValue(m, step, true, readLen(buf, m), int64(len(buf)-(m.Off+m.Width)))
				if !ok {
					continue
				}
				if nb := rewrite(buf, m, val); nb != nil {
					out = append(out, derived{"rewrite_extreme", nb})
				}
			}
		}
		return out
	}
	if phase == phaseBitflip {
		if len(buf) == 0 {
			return out
		}
		nf := 24
		for i := 0; i < nf; i++ {
			pos := rapid.IntRange(0, len(buf)*8-1).Draw(rt, "flip")
			nb := append([]byte{}, buf...)
			nb[pos/8] ^= 1 << uint(pos%8)
			if i >= nf/2 { // a second flip
				pos = rapid.IntRange(0, len(buf)*8-1).Draw(rt, "flip2")
				nb[pos/8] ^= 1 << uint(pos%8)
			}
			out = append(out, derived{"bitflip", nb})
		}
		return out
	}
	// truncation at every boundary (sampled when there are very many)
	var offs []int
	for o := range cuts {
		if o < len(buf) {
			offs = append(offs, o)
		}
	}
	sort.Ints(offs)
	for _, i := range pick(rt, "cut", len(offs), 48) {
		out = append(out, derived{"truncate", buf[:offs[i]]})
	}
	if len(buf) > 0 {
		out = append(out, derived{"truncate", buf[:len(buf)-1]})
	}
	out = append(out, derived{"extend", append(append([]byte{}, buf...), 0, 0, 0, 0, 1)})
	// max-claim: array/bytes/string lengths set, last to first, to exactly the number
	// of bytes that follow the length field (the largest value the readers' guards let
	// through). Round 0: every array; round 1: every array, bytes and string; rounds
	// 2, 3: drawn subsets.
	var claimable []int
	for i, m := range lens {
		if m.Kind != krammar.MTagSize && m.Kind != krammar.MTagCount {
			claimable = append(claimable, i)
		}
	}
	if len(claimable) > 0 {
		for round := 0; round < 4; round++ {
			cur := append([]byte{}, buf...)
			arraysOnly := round == 0 || round == 2
			n := 0
			for j := len(claimable) - 1; j >= 0; j-- {
				m := lens[claimable[j]]
				if arraysOnly && m.What != "array" {
					continue
				}
				if round >= 2 && !rapid.Bool().Draw(rt, "claim") {
					continue
				}
				rem := int64(len(cur) - (m.Off + m.Width))
				if m.Kind == krammar.MLenI16 && rem > 32767 {
					rem = 32767
				}
				if nb := rewrite(cur, m, rem); nb != nil {
					// a compact length may have grown by a byte: the claim still fits
					cur = nb
					n++
				}
			}
			if n > 0 {
				out = append(out, derived{"maxclaim", cur})
				// the same claims with padding behind them, so that the claimed
				// allocations actually happen and the element loops run
				out = append(out, derived{"maxclaim", append(cur, make([]byte, 64+rapid.IntRange(0, 512).Draw(rt, "pad"))...)})
			}
		}
	}
	// single length fields rewritten
	sel := pick(rt, "len", len(lens), 24)
	for step := 0; step < moderateSteps; step++ {
		for _, i := range sel {
			m := lens[i]
			cur := readLen(buf, m)
			val, ok := rewriteValue(m, step, false, cur, int64(len(buf)-(m.Off+m.Width)))
			if !ok || val == cur {
				continue
			}
			if m.Kind == krammar.MTagCount && val > maxTagLoop {
				val = maxTagLoop // larger counts are pre-screened anyway
			}
			if nb := rewrite(buf, m, val); nb != nil {
				out = append(out, derived{"rewrite", nb})
			}
		}
	}
	return out
}

func reportSample(c krammar.Cell, kind string, in []byte, decoded bool) {
	ev.SampleIf(func() any {
		return map[string]any{"type": c.B.Name, "version": c.V, "input_kind": kind, "input_len": len(in), "input_hex_prefix": hex.EncodeToString(capBytes(in, 48)), "decoded": decoded, "alloc_bound": fmt.Sprintf("%d + %d*len", allocK0, factor[c.B.Name])}
	})
}

func one(rt fataler, c krammar.Cell, kind string, in []byte) {
	msg, decoded := evalInput(c, in)
	if msg != "" {
		markViolation()
		rt.Fatalf("VERIF-VIOLATION C16 %s version %d, %s input (%d bytes) %x: %s", c.B.Name, c.V, kind, len(in), capBytes(in, 600), msg)
	}
	nontrivial := kind == "maxclaim" || (decoded && kind != "valid")
	ev.Case(digest(c, in), nontrivial)
	ev.Class("input_" + kind)
	if decoded {
		ev.Class("decoded_ok_" + kind)
	}
	if nontrivial && (kind == "maxclaim" || kind == "rewrite" || kind == "bitflip") {
		reportSample(c, kind, in, decoded)
	}
}

// validEncoding draws a valid value of the cell and encodes it with the reference
// encoder (recording the positions of all length fields and boundaries).
func validEncoding(rt *rapid.T, c krammar.Cell) *krammar.Enc {
	mode := krammar.ModeRandom
	if rapid.IntRange(0, 3).Draw(rt, "full") == 0 {
		mode = krammar.ModeFull
	}
	p := c.B.Generate(rt, c.V, mode, nil)
	tree, err := c.B.Tree(p, c.V)
	if err != nil {
		rt.Fatalf("VERIF-INFRA harness: %v", err)
	}
	enc, err := krammar.Encode(c.B.S, c.V, tree, true)
	if err != nil {
		rt.Fatalf("VERIF-INFRA harness: reference encoder: %v", err)
	}
	return enc
}

// structured runs inputs (b) and (c) for one drawn valid value of the cell.
func structured(rt *rapid.T, c krammar.Cell, phase int) {
	enc := validEncoding(rt, c)
	if phase == phaseModerate {
		one(rt, c, "valid", enc.Buf)
	}
	for _, d := range derive(rt, enc, phase) {
		one(rt, c, d.kind, d.data)
	}
}

func shardCells() []krammar.Cell {
	sh, nsh := ev.Shard()
	var out []krammar.Cell
	for i, c := range grid {
		if i%nsh == sh {
			out = append(out, c)
		}
	}
	return out
}

// handwritten reports whether the cell's decoder is hand-written (record.go, api.go)
// or one of the record / message-set formats the property names.
func handwritten(c krammar.Cell) bool {
	switch c.B.Name {
	case "Record", "RecordBatch", "MessageV0", "MessageV1", "StickyMemberMetadata", "Header":
		return true
	}
	return false
}

func extras() {
	min, max := ^uint64(0), uint64(0)
	for _, f := range factor {
		if f < min {
			min = f
		}
		if f > max {
			max = f
		}
	}
	ev.Extra("alloc_bound", fmt.Sprintf("TotalAlloc delta around one ReadFrom/UnsafeReadFrom <= %d + F(type)*len(input), F(type) = %d * largest reflected size of the type or of any slice element / pointee reachable from it (>= 16); F ranges %d..%d over %d types", allocK0, allocFactor, min, max, len(factor)))
	types, cells := map[string]int{}, map[string]int{}
	for _, b := range binds {
		types[b.Kind]++
		cells[b.Kind] += len(b.Versions())
	}
	named := map[string]uint64{}
	for _, n := range []string{"Record", "RecordBatch", "MessageV0", "MessageV1", "StickyMemberMetadata", "FetchResponse", "ProduceRequest", "MetadataResponse"} {
		if f, ok := factor[n]; ok {
			named[n] = f
		}
	}
	ev.Extra("grid", map[string]any{
		"types_request": types["request"], "types_response": types["response"], "types_standalone": types["standalone"],
		"cells_request": cells["request"], "cells_response": cells["response"], "cells_standalone": cells["standalone"],
		"cells_total": len(grid), "decoders_per_cell": "ReadFrom, UnsafeReadFrom",
	})
	ev.Extra("alloc_factor_examples_bytes_per_input_byte", named)
}

// TestStructured: inputs (b) mutated valid encodings and (c) max-claim inputs, for
// every (type, version) cell, through ReadFrom and UnsafeReadFrom.
func TestStructured(t *testing.T) {
	load(t)
	extras()
	for _, c := range shardCells() {
		c := c
		rapid.Check(t, func(rt *rapid.T) { structured(rt, c, phaseModerate) })
		if t.Failed() {
			return
		}
	}
}

// TestHandwritten gives the hand-written and record / message-set decoders (a handful
// of cells among hundreds) many more valid values each than TestStructured does.
func TestHandwritten(t *testing.T) {
	load(t)
	for _, c := range shardCells() {
		if !handwritten(c) {
			continue
		}
		c := c
		rapid.Check(t, func(rt *rapid.T) {
			for i := 0; i < 12; i++ {
				structured(rt, c, phaseModerate)
				ev.Class("handwritten_values")
			}
		})
		if t.Failed() {
			return
		}
	}
}

// TestBitflips: single and double bit flips of valid encodings, for every cell (the
// hand-written and record decoders get 12 values per check).
func TestBitflips(t *testing.T) {
	load(t)
	for _, c := range shardCells() {
		c := c
		n := 1
		if handwritten(c) {
			n = 12
		}
		rapid.Check(t, func(rt *rapid.T) {
			for i := 0; i < n; i++ {
				structured(rt, c, phaseBitflip)
			}
		})
		if t.Failed() {
			return
		}
	}
}

// TestArbitrary: inputs (a) arbitrary bytes for every cell.
func TestArbitrary(t *testing.T) {
	load(t)
	for _, c := range shardCells() {
		c := c
		rapid.Check(t, func(rt *rapid.T) {
			n := rapid.IntRange(1, 6).Draw(rt, "n")
			if handwritten(c) {
				n = 24
			}
			for i := 0; i < n; i++ {
				in := rapid.SliceOfN(rapid.Byte(), 0, 96).Draw(rt, "bytes")
				one(rt, c, "arbitrary", in)
			}
		})
		if t.Failed() {
			return
		}
	}
}

// TestExtreme: single length fields rewritten to huge values (2^24 .. 2^32-1). It is
// the last test (the run uses -test.failfast), see rewriteValue.
func TestExtreme(t *testing.T) {
	load(t)
	for _, c := range shardCells() {
		c := c
		rapid.Check(t, func(rt *rapid.T) { structured(rt, c, phaseExtreme) })
		if t.Failed() {
			return
		}
	}
}

// seedCorpus adds one valid encoding per cell.
func seedCorpus(f *testing.F, cells []int) {
	for _, i := range cells {
		c := grid[i]
		gen := rapid.Custom(func(rt *rapid.T) []byte {
			p := c.B.Generate(rt, c.V, krammar.ModeFull, nil)
			tree, err := c.B.Tree(p, c.V)
			if err != nil {
				return nil
			}
			enc, err := krammar.Encode(c.B.S, c.V, tree, false)
			if err != nil {
				return nil
			}
			return enc.Buf
		})
		f.Add(uint16(i), gen.Example(i+1))
	}
}

func fuzzOne(t *testing.T, c krammar.Cell, in []byte) {
	if len(in) > 1<<16 {
		return
	}
	msg, decoded := evalInput(c, in)
	if msg != "" {
		markViolation()
		t.Fatalf("VERIF-VIOLATION C16 %s version %d, fuzz input (%d bytes) %x: %s", c.B.Name, c.V, len(in), capBytes(in, 600), msg)
	}
	if decoded {
		ev.Nontrivial(digest(c, in))
		ev.Class("fuzz_decoded_ok")
	}
}

// FuzzDecode is the native fuzz target over the whole grid: (cell index, bytes).
func FuzzDecode(f *testing.F) {
	load(f)
	all := make([]int, len(grid))
	for i := range all {
		all[i] = i
	}
	seedCorpus(f, all)
	f.Fuzz(func(t *testing.T, idx uint16, in []byte) {
		fuzzOne(t, grid[int(idx)%len(grid)], in)
	})
}

// FuzzDecodeRecords is the native fuzz target over the hand-written and record /
// message-set decoders only (Record, RecordBatch, MessageV0, MessageV1, Header,
// StickyMemberMetadata).
func FuzzDecodeRecords(f *testing.F) {
	load(f)
	var cells []int
	for i, c := range grid {
		if handwritten(c) {
			cells = append(cells, i)
		}
	}
	if len(cells) == 0 {
		fmt.Println("VERIF-INFRA: no hand-written decoders in the grid")
		f.Fatalf("VERIF-INFRA: no hand-written decoders in the grid")
	}
	seedCorpus(f, cells)
	f.Fuzz(func(t *testing.T, idx uint16, in []byte) {
		i := int(idx)
		if i >= len(grid) || !handwritten(grid[i]) {
			i = cells[i%len(cells)]
		}
		fuzzOne(t, grid[i], in)
	})
}
