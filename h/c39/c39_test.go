package c39

import (
	"context"
	"encoding/binary"
	"fmt"
	"regexp"
	"sort"
	"strings"
	"sync"
	"testing"
	"time"

	"github.com/twmb/franz-go/pkg/kgo"
	"github.com/twmb/franz-go/pkg/kmsg"
	"pgregory.net/rapid"

	"verif/h/bubble"
	"verif/h/ev"
)

func TestMain(m *testing.M) { ev.Main(m, "C39") }

type tp struct {
	T string
	P int32
}

func (x tp) String() string { return fmt.Sprintf("%s/%d", x.T, x.P) }

type step struct {
	Delay time.Duration
	Kind  string // mktopic | addparts | deltopic | addtopic | purge | addpart | rmpart | sleep
	Topic int
	Part  int32
	N     int
	Dur   time.Duration
}

type plan struct {
	Mode     string // topics | regex | partitions
	Brokers  int
	Names    []string // universe of topic names
	Seeded   []bool
	Parts    []int32
	Internal []bool
	Init     []int // initially selected topic indices (topics mode) ; partitions mode: initial partitions of these topics (partition 0 and maybe 1)
	Steps    []step
}

var include = regexp.MustCompile(`^r-`)
var exclude = regexp.MustCompile(`^r-x`)

func genPlan(t *rapid.T) plan {
	p := plan{Mode: rapid.SampledFrom([]string{"topics", "regex", "partitions"}).Draw(t, "mode"), Brokers: rapid.IntRange(1, 3).Draw(t, "brokers")}
	if p.Mode == "regex" {
		p.Names = []string{"r-a", "r-b", "r-xa", "other", "r-int"}
	} else {
		p.Names = []string{"a", "b", "c", "d"}
	}
	for i := range p.Names {
		p.Seeded = append(p.Seeded, rapid.Bool().Draw(t, "seeded"))
		p.Parts = append(p.Parts, int32(rapid.IntRange(1, 3).Draw(t, "parts")))
		p.Internal = append(p.Internal, p.Names[i] == "r-int")
	}
	p.Seeded[0] = true
	for i := range p.Names {
		if i == 0 || rapid.Bool().Draw(t, "init") {
			p.Init = append(p.Init, i)
		}
	}
	kinds := []string{"mktopic", "mktopic", "addparts", "sleep", "sleep"}
	if p.Brokers > 1 {
		kinds = append(kinds, "move", "move") // leader moves: cursors migrate between sources, epochs are re-validated
	}
	switch p.Mode {
	case "topics":
		kinds = append(kinds, "addtopic", "addtopic", "purge", "deltopic", "rmpart")
	case "regex":
		kinds = append(kinds, "deltopic")
	case "partitions":
		kinds = append(kinds, "addpart", "addpart", "rmpart", "rmpart", "purge")
	}
	n := rapid.IntRange(1, 14).Draw(t, "nsteps")
	for i := 0; i < n; i++ {
		s := step{Delay: rapid.SampledFrom([]time.Duration{0, 10 * time.Millisecond, time.Second, 5 * time.Second}).Draw(t, "delay"), Kind: rapid.SampledFrom(kinds).Draw(t, "kind")}
		s.Topic = rapid.IntRange(0, len(p.Names)-1).Draw(t, "topic")
		s.Part = int32(rapid.IntRange(0, 3).Draw(t, "part"))
		s.N = rapid.IntRange(1, 2).Draw(t, "n")
		s.Dur = rapid.SampledFrom([]time.Duration{time.Second, 10 * time.Second}).Draw(t, "dur")
		p.Steps = append(p.Steps, s)
	}
	return p
}

type interval struct{ from, to int } // log indices; to = -1 while open

type returned struct {
	tp       tp
	id       int64
	pollFrom int
	pollTo   int
	at       time.Duration
}

func TestConsumesExactlySelected(t *testing.T) {
	rapid.Check(t, func(rt *rapid.T) {
		p := genPlan(rt)
		var nRemoved, nLate, nRmInTopics, nMoves int
		bubble.Run(t, rt, func(e *bubble.Env) {
			seed := map[string]int32{}
			exists := map[string]int32{} // topic -> partition count (existing topics)
			deleted := map[string]bool{}
			var seedOpts []string
			for i, n := range p.Names {
				if p.Seeded[i] && !p.Internal[i] {
					seed[n] = p.Parts[i]
					exists[n] = p.Parts[i]
					seedOpts = append(seedOpts, n)
				}
			}
			e.StartCluster(bubble.ClusterOpts{Brokers: p.Brokers, Topics: seed})
			ctx := context.Background()
			admin := e.NewClient(kgo.ClientID("admin"))
			prod := e.NewClient(kgo.ClientID("prod"), kgo.RecordPartitioner(kgo.ManualPartitioner()), kgo.ProducerLinger(0))
			mk := func(i int) {
				n := p.Names[i]
				if _, ok := exists[n]; ok || deleted[n] {
					return
				}
				req := kmsg.NewPtrCreateTopicsRequest()
				rtq := kmsg.NewCreateTopicsRequestTopic()
				rtq.Topic, rtq.NumPartitions, rtq.ReplicationFactor = n, p.Parts[i], 1
				if p.Internal[i] {
					c := kmsg.NewCreateTopicsRequestTopicConfig()
					c.Name, c.Value = "kfake.is_internal", kmsg.StringPtr("true")
					rtq.Configs = append(rtq.Configs, c)
				}
				req.Topics = append(req.Topics, rtq)
				req.TimeoutMillis = 5000
				resp, err := req.RequestWith(ctx, admin)
				if err == nil && len(resp.Topics) == 1 && resp.Topics[0].ErrorCode == 0 {
					exists[n] = p.Parts[i]
				}
				e.Log.Add("mktopic", 0, n, err, 0, 0)
			}
			// selection model
			var mu sync.Mutex
			selTopic := map[string][]interval{} // topics / regex mode
			selPart := map[tp][]interval{}      // partitions mode
			// topics mode: RemoveConsumePartitions on a partition of a ConsumeTopics topic. The removed
			// partition must not be returned again until the topic is added again; what happens to the
			// topic's other (and future) partitions is not documented, so the topic is exempt from the
			// liveness clause until then.
			rmIv := map[tp][]interval{}
			rmAmbiguous := map[string]bool{}
			open := func(m map[string][]interval, k string, at int) {
				if iv := m[k]; len(iv) > 0 && iv[len(iv)-1].to == -1 {
					return
				}
				m[k] = append(m[k], interval{at, -1})
			}
			closeIv := func(m map[string][]interval, k string, at int) {
				if iv := m[k]; len(iv) > 0 && iv[len(iv)-1].to == -1 {
					iv[len(iv)-1].to = at
				}
			}
			openP := func(k tp, at int) {
				if iv := selPart[k]; len(iv) > 0 && iv[len(iv)-1].to == -1 {
					return
				}
				selPart[k] = append(selPart[k], interval{at, -1})
			}
			closeP := func(k tp, at int) {
				if iv := selPart[k]; len(iv) > 0 && iv[len(iv)-1].to == -1 {
					iv[len(iv)-1].to = at
				}
			}
			var opts []kgo.Opt
			opts = append(opts, kgo.ConsumeResetOffset(kgo.NewOffset().AtStart()), kgo.FetchMaxWait(200*time.Millisecond), kgo.ClientID("consumer"))
			switch p.Mode {
			case "topics":
				var ts []string
				for _, i := range p.Init {
					ts = append(ts, p.Names[i])
					open(selTopic, p.Names[i], 0)
				}
				opts = append(opts, kgo.ConsumeTopics(ts...))
			case "regex":
				opts = append(opts, kgo.ConsumeRegex(), kgo.ConsumeTopics(include.String()), kgo.ConsumeExcludeTopics(exclude.String()))
				for i, n := range p.Names {
					if include.MatchString(n) && !exclude.MatchString(n) && !p.Internal[i] {
						open(selTopic, n, 0)
					}
				}
			case "partitions":
				m := map[string]map[int32]kgo.Offset{}
				for _, i := range p.Init {
					n := p.Names[i]
					m[n] = map[int32]kgo.Offset{0: kgo.NewOffset().AtStart()}
					openP(tp{n, 0}, 0)
				}
				opts = append(opts, kgo.ConsumePartitions(m))
			}
			cl := e.NewClient(opts...)
			var rets []returned
			stop := make(chan struct{})
			pdone := make(chan struct{})
			start := time.Now()
			e.Go(func() {
				defer close(pdone)
				for {
					select {
					case <-stop:
						return
					default:
					}
					from := e.Log.Add("poll-start", 0, "", nil, 0, 0)
					pc, cancel := context.WithTimeout(ctx, 300*time.Millisecond)
					fs := cl.PollFetches(pc)
					cancel()
					to := e.Log.Add("poll-end", int64(fs.NumRecords()), "", nil, 0, 0)
					mu.Lock()
					fs.EachRecord(func(r *kgo.Record) {
						id := int64(-1)
						if len(r.Value) >= 8 {
							id = int64(binary.BigEndian.Uint64(r.Value))
						}
						rets = append(rets, returned{tp{r.Topic, r.Partition}, id, from, to, time.Since(start)})
					})
					mu.Unlock()
				}
			})
			// traffic: one tagged record to every existing partition every 500 ms
			tstop := make(chan struct{})
			tdone := make(chan struct{})
			lock := make(chan struct{}, 1)
			var nextID int64
			e.Go(func() {
				defer close(tdone)
				for {
					select {
					case <-tstop:
						return
					case <-time.After(500 * time.Millisecond):
					}
					lock <- struct{}{}
					var recs []*kgo.Record
					var names []string
					for n := range exists {
						names = append(names, n)
					}
					sort.Strings(names)
					for _, n := range names {
						for pt := int32(0); pt < exists[n]; pt++ {
							nextID++
							v := make([]byte, 8)
							binary.BigEndian.PutUint64(v, uint64(nextID))
							recs = append(recs, &kgo.Record{Topic: n, Partition: pt, Value: v})
						}
					}
					<-lock
					if len(recs) > 0 {
						pc, cancel := context.WithTimeout(ctx, 30*time.Second)
						prod.ProduceSync(pc, recs...)
						cancel()
					}
				}
			})
			for _, s := range p.Steps {
				time.Sleep(s.Delay)
				n := p.Names[s.Topic]
				lock <- struct{}{}
				switch s.Kind {
				case "move":
					if _, ok := exists[n]; ok {
						err := e.Cluster.MoveTopicPartition(n, s.Part, int32(s.N%p.Brokers))
						e.Log.Add("move", int64(s.Part), n, err, int64(s.N%p.Brokers), 0)
						if err == nil {
							nMoves++
						}
					}
				case "mktopic":
					mk(s.Topic)
				case "addparts":
					if cur, ok := exists[n]; ok {
						req := kmsg.NewPtrCreatePartitionsRequest()
						rtq := kmsg.NewCreatePartitionsRequestTopic()
						rtq.Topic, rtq.Count = n, cur+int32(s.N)
						req.Topics = append(req.Topics, rtq)
						req.TimeoutMillis = 5000
						resp, err := req.RequestWith(ctx, admin)
						if err == nil && len(resp.Topics) == 1 && resp.Topics[0].ErrorCode == 0 {
							exists[n] = cur + int32(s.N)
						}
						e.Log.Add("addparts", int64(s.N), n, err, 0, 0)
					}
				case "deltopic":
					if _, ok := exists[n]; ok {
						req := kmsg.NewPtrDeleteTopicsRequest()
						req.TopicNames = []string{n}
						dt := kmsg.NewDeleteTopicsRequestTopic()
						dt.Topic = kmsg.StringPtr(n)
						req.Topics = append(req.Topics, dt)
						req.TimeoutMillis = 5000
						_, err := req.RequestWith(ctx, admin)
						delete(exists, n)
						deleted[n] = true
						e.Log.Add("deltopic", 0, n, err, 0, 0)
					}
				case "addtopic":
					at := e.Log.Add("addtopic", 0, n, nil, 0, 0)
					mu.Lock()
					open(selTopic, n, at)
					for k, iv := range rmIv {
						if k.T == n && len(iv) > 0 && iv[len(iv)-1].to == -1 {
							iv[len(iv)-1].to = at
						}
					}
					delete(rmAmbiguous, n)
					mu.Unlock()
					cl.AddConsumeTopics(n)
				case "purge":
					cl.PurgeTopicsFromConsuming(n)
					at := e.Log.Add("purged", 0, n, nil, 0, 0)
					mu.Lock()
					if p.Mode == "topics" {
						closeIv(selTopic, n, at)
					} else {
						for k := range selPart {
							if k.T == n {
								closeP(k, at)
							}
						}
					}
					mu.Unlock()
					nRemoved++
				case "addpart":
					k := tp{n, s.Part}
					at := e.Log.Add("addpart", int64(s.Part), n, nil, 0, 0)
					mu.Lock()
					already := len(selPart[k]) > 0 && selPart[k][len(selPart[k])-1].to == -1
					if !already {
						openP(k, at)
					}
					mu.Unlock()
					if !already {
						cl.AddConsumePartitions(map[string]map[int32]kgo.Offset{n: {s.Part: kgo.NewOffset().AtStart()}})
					}
				case "rmpart":
					k := tp{n, s.Part}
					cl.RemoveConsumePartitions(map[string][]int32{n: {s.Part}})
					at := e.Log.Add("rmpart-done", int64(s.Part), n, nil, 0, 0)
					mu.Lock()
					if p.Mode == "topics" {
						if iv := rmIv[k]; len(iv) == 0 || iv[len(iv)-1].to != -1 {
							rmIv[k] = append(rmIv[k], interval{at, -1})
						}
						rmAmbiguous[n] = true
						nRmInTopics++
					} else {
						closeP(k, at)
					}
					mu.Unlock()
					nRemoved++
				case "sleep":
					<-lock
					time.Sleep(s.Dur)
					lock <- struct{}{}
				}
				<-lock
			}
			// quiet period: selection no longer changes, traffic continues
			time.Sleep(90 * time.Second)
			finalFrom := time.Since(start) - 45*time.Second
			close(tstop)
			<-tdone
			time.Sleep(5 * time.Second)
			close(stop)
			<-pdone
			endN := e.Log.Len()
			fail := func(format string, a ...any) {
				rt.Fatalf("%s\nplan: %+v\nhistory tail:\n%s", fmt.Sprintf(format, a...), p, tail(e, 50))
			}
			selected := func(k tp) []interval {
				if p.Mode == "partitions" {
					return selPart[k]
				}
				return selTopic[k.T]
			}
			mu.Lock()
			defer mu.Unlock()
			// (a) nothing unselected is ever returned
			for _, r := range rets {
				ok := false
				for _, iv := range selected(r.tp) {
					to := iv.to
					if to == -1 {
						to = endN
					}
					if iv.from <= r.pollTo && to >= r.pollFrom {
						ok = true
					}
				}
				if !ok {
					why := "was never selected"
					if len(selected(r.tp)) > 0 {
						why = fmt.Sprintf("was removed before that poll started (selection intervals %v)", selected(r.tp))
					}
					fail("record %d of %s returned by the poll spanning log #%d..#%d, but that partition %s", r.id, r.tp, r.pollFrom, r.pollTo, why)
				}
				for _, iv := range rmIv[r.tp] {
					if r.pollFrom > iv.from && (iv.to == -1 || r.pollTo < iv.to) {
						fail("record %d of %s returned by the poll spanning log #%d..#%d, but RemoveConsumePartitions for that partition had returned at log #%d and the topic was not added again before the poll", r.id, r.tp, r.pollFrom, r.pollTo, iv.from)
					}
				}
			}
			// (b) every selected partition of an existing topic is being consumed at the end
			recent := map[tp]bool{}
			for _, r := range rets {
				if r.at >= finalFrom {
					recent[r.tp] = true
				}
			}
			for n, np := range exists {
				for pt := int32(0); pt < np; pt++ {
					k := tp{n, pt}
					iv := selected(k)
					if len(iv) == 0 || iv[len(iv)-1].to != -1 || rmAmbiguous[n] {
						continue
					}
					if !recent[k] {
						nLate++
						fail("%s has been selected since log #%d and receives a record every 500 ms, but no record of it was returned in the last 45 virtual seconds (90 s after the last change)", k, iv[len(iv)-1].from)
					}
				}
			}
		})
		var ks []string
		for _, s := range p.Steps {
			ks = append(ks, s.Kind)
		}
		ev.Case(fmt.Sprintf("%s|%v|%v|%s", p.Mode, p.Seeded, p.Init, strings.Join(ks, ",")), len(p.Steps) >= 3)
		ev.Class("mode:" + p.Mode)
		if nRemoved > 0 {
			ev.Class("removal-or-purge")
		}
		if nRmInTopics > 0 {
			ev.Class("remove-partition-of-ConsumeTopics-topic")
		}
		if nMoves > 0 {
			ev.Class("leader-moved")
		}
		if nMoves > 0 && nRemoved > 0 {
			ev.Class("leader-moved-and-removal")
		}
		ev.SampleIf(func() any { return map[string]any{"mode": p.Mode, "steps": ks, "init": p.Init, "seeded": p.Seeded} })
	})
}

func tail(e *bubble.Env, n int) string {
	evs := e.Log.Snapshot()
	var b strings.Builder
	cnt := 0
	for i := len(evs) - 1; i >= 0 && cnt < n; i-- {
		if strings.HasPrefix(evs[i].Kind, "poll-") {
			continue
		}
		fmt.Fprintf(&b, "  #%d t=%v %s %s id=%d err=%q\n", evs[i].N, evs[i].At, evs[i].Kind, evs[i].S, evs[i].ID, evs[i].Err)
		cnt++
	}
	return b.String()
}
