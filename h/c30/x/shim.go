// Package x holds the code under test of C30: ring_gen.go and workloop_gen.go are
// generated at check time from the repository (see verif/h/sched/extract; git-ignored).
// This file only exports what the harness needs; it adds no behaviour.
package x

import "verif/h/sched"

type Ring = ring[int]

// NewRing mirrors how kgo sets a ring up: the zero value, plus initMaxLen before any
// concurrent use when a bound is wanted (producer.go). maxLen 0 = unbounded.
func NewRing(maxLen int) *Ring {
	r := &ring[int]{}
	if maxLen > 0 {
		r.initMaxLen(maxLen)
	}
	return r
}

func (r *ring[T]) Push(e T) (first, dead bool)      { return r.push(e) }
func (r *ring[T]) PushForce(e T) (first, dead bool) { return r.pushForce(e) }
func (r *ring[T]) DropPeek() (T, bool, bool)        { return r.dropPeek() }
func (r *ring[T]) Die()                             { r.die() }
func (r *ring[T]) Empty() bool                      { return r.empty() }

// Observation without synchronisation: only one logical thread runs at a time.
func (r *ring[T]) Len() int             { return r.l }
func (r *ring[T]) Cap() int             { return cap(r.elems) }
func (r *ring[T]) IsDead() bool         { return r.dead }
func (r *ring[T]) CondPtr() *sched.Cond { return r.cond }

const MinRingCap = minRingCap

type WorkLoop = workLoop

func (l *workLoop) MaybeBegin() bool            { return l.maybeBegin() }
func (l *workLoop) MaybeFinish(again bool) bool { return l.maybeFinish(again) }
func (l *workLoop) HardFinish()                 { l.hardFinish() }
func (l *workLoop) State() uint32               { return l.state.Peek() }
