// Package c30 checks property C30: the client's work queue (ring) and start-work latch
// (workLoop) never lose or duplicate work. The code under test is extracted from the
// repository at check time (x/*_gen.go) with only its synchronisation types swapped for
// verif/h/sched's, and is driven by generated programs under generated schedules:
// random (rapid, with shrinking) and, for the small configurations listed in
// exhaustive.go, every schedule (depth-first enumeration of the complete choice tree).
package c30

import (
	"encoding/json"
	"fmt"
	"os"
	"runtime"
	"strings"
	"testing"

	"pgregory.net/rapid"

	"verif/h/c30/x"
	"verif/h/ev"
	"verif/h/sched"
)

func TestMain(m *testing.M) {
	// One logical thread runs at a time; a single P makes the baton hand-off cheap.
	// Parallelism comes from the driver's seed-sharded processes.
	runtime.GOMAXPROCS(1)
	ev.Main(m, "C30")
}

// ---------------------------------------------------------------------------------
// ring

// ringProg is a generated ring program.
type ringProg struct {
	MaxLen     int      `json:"max_len"`     // 0 = unbounded (initMaxLen never called)
	Pushers    [][]bool `json:"pushers"`     // per pusher thread its pushes in order; true = pushForce
	Die        bool     `json:"die"`         // a further thread calls die() once
	WorkYields int      `json:"work_yields"` // scheduling points inside the worker's handling of one element (>=1)
}

func (p ringProg) String() string {
	var b strings.Builder
	fmt.Fprintf(&b, "ring maxLen=%d [", p.MaxLen)
	for i, ops := range p.Pushers {
		if i > 0 {
			b.WriteByte('|')
		}
		for _, f := range ops {
			if f {
				b.WriteByte('F')
			} else {
				b.WriteByte('p')
			}
		}
	}
	b.WriteByte(']')
	if p.Die {
		b.WriteString(" die")
	}
	fmt.Fprintf(&b, " wy=%d", p.WorkYields)
	return b.String()
}

type ringInfo struct {
	accepted, rejected, workers, viaDrop, waits int
	grew, shrank, deadHandled                   bool
}

type handledRec struct {
	elem, worker int
	dead         bool
}

// runRing executes p under the schedule given by choose and evaluates the oracle.
//
// Harness clock: `tick` is a counter bumped at every harness event. Exactly one thread
// runs at a time, so the tick order is the real-time order of the events; an interval
// [call tick, return tick] of an operation contains the moment it took effect.
func runRing(cfg sched.Config, p ringProg, choose func(int) int) (*sched.Result, ringInfo) {
	var (
		r        *x.Ring
		info     ringInfo
		tick     int
		call     = map[int]int{}
		ret      = map[int]int{}
		accepted = map[int]bool{}
		rejected = map[int]bool{}
		handled  []handledRec
		active   int             // workers currently handling an element
		dieCall  int             // 0 = die not called yet
		dieRet   int             // 0 = die not returned yet
		inPush   = map[int]int{} // thread id -> 1 blocking push, 2 pushForce (while inside the call)
		nworkers int
	)
	now := func() int { tick++; return tick }
	res := sched.Run(cfg, choose, func(s *sched.S) {
		r = x.NewRing(p.MaxLen)
		s.OnOp = func(t *sched.Thread, op sched.Op) {
			if op.Kind != sched.OpCondWait || op.Obj != any(r.CondPtr()) {
				return
			}
			// "A bounded queue blocks pushers only while full": a thread that is about to
			// park on the ring's condition variable (observed with the ring mutex held).
			info.waits++
			switch {
			case inPush[t.ID] != 1:
				s.Failf("%s parks on the ring's cond outside a blocking push (pushForce must never wait)", t.Name)
			case p.MaxLen <= 0:
				s.Failf("%s parks on an unbounded ring", t.Name)
			case r.Len() < p.MaxLen:
				s.Failf("%s blocks in push although the ring is not full: l=%d maxLen=%d", t.Name, r.Len(), p.MaxLen)
			}
		}
		var worker func(first int)
		worker = func(first int) {
			nworkers++
			w := nworkers
			s.Go(fmt.Sprintf("w%d", w), func() {
				// Exactly the loop of kgo's ring users (producer.finishPromises,
				// broker.handleReqs, brokerCxn.handleResps, sink.handleSeqResps): handle the
				// element that made the push report first, then dropPeek until !more.
				cur, dead := first, false
				for {
					active++
					if active != 1 {
						s.Failf("two workers handle elements at the same time (worker w%d starts on element %d while another worker is active)", w, cur)
					}
					handled = append(handled, handledRec{cur, w, dead})
					now()
					if dead {
						info.deadHandled = true
					}
					for i := 0; i < p.WorkYields; i++ {
						sched.Yield() // handling takes time
					}
					active--
					dpCall := now()
					dieRetAtCall := dieRet
					next, more, d := r.DropPeek()
					now()
					if r.Cap() > x.MinRingCap {
						info.grew = true
					} else if info.grew {
						info.shrank = true
					}
					// dead flag: "If a die happens while a worker is running, all future pops
					// will see the ring is dead".
					if d && dieCall == 0 {
						s.Failf("dropPeek reports dead but die() was never called")
					}
					if !d && dieRetAtCall != 0 && dieRetAtCall < dpCall {
						s.Failf("dropPeek called after die() returned does not report dead")
					}
					if !more {
						return
					}
					info.viaDrop++
					cur, dead = next, d
				}
			})
		}
		for pi, ops := range p.Pushers {
			pi, ops := pi, ops
			var th *sched.Thread
			th = s.Go(fmt.Sprintf("p%d", pi), func() {
				for k, force := range ops {
					e := pi*100 + k
					call[e] = now()
					dieRetAtCall := dieRet
					var first, dead bool
					if force {
						inPush[th.ID] = 2
						first, dead = r.PushForce(e)
					} else {
						inPush[th.ID] = 1
						first, dead = r.Push(e)
					}
					inPush[th.ID] = 0
					ret[e] = now()
					if r.Cap() > x.MinRingCap {
						info.grew = true
					}
					if dead {
						// "a killed queue rejects further elements"
						rejected[e] = true
						if dieCall == 0 {
							s.Failf("push of %d rejected as dead but die() was never called", e)
						}
						if first {
							s.Failf("push of %d reports both first and dead", e)
						}
						continue
					}
					if dieRetAtCall != 0 {
						s.Failf("push of %d was called after die() had returned and was accepted", e)
					}
					accepted[e] = true
					if first {
						worker(e) // `if first, _ := r.push(x); first { go worker(x) }`
					}
				}
			})
		}
		if p.Die {
			s.Go("die", func() {
				dieCall = now()
				r.Die()
				dieRet = now()
			})
		}
	})
	info.accepted, info.rejected, info.workers = len(accepted), len(rejected), nworkers
	if res.Kind != sched.OK {
		return res, info
	}
	// Every accepted element is handed to exactly one worker invocation, nothing else is.
	seen := map[int]int{}
	for _, h := range handled {
		seen[h.elem]++
		if !accepted[h.elem] {
			res.Fail("element %d was handed to worker w%d but its push was not accepted (rejected=%v)", h.elem, h.worker, rejected[h.elem])
		}
		if h.dead && dieCall == 0 {
			res.Fail("element %d handled as dead without die()", h.elem)
		}
	}
	for e := range accepted {
		if seen[e] != 1 {
			res.Fail("accepted element %d was handed to a worker %d times (want exactly once); handled=%v", e, seen[e], handled)
		}
	}
	// In push order. Handling is serial (asserted above), so `handled` is a sequence. Push
	// order is the order in which pushes took effect; a push takes effect between its
	// call and its return, so the sequence must never contain b before a when a's push had
	// returned before b's push was called (this includes each pusher's own order).
	for i := 0; i < len(handled); i++ {
		for j := i + 1; j < len(handled); j++ {
			a, b := handled[j].elem, handled[i].elem // b handled before a
			if ret[a] < call[b] {
				res.Fail("element %d was handled before element %d although push(%d) returned (tick %d) before push(%d) was called (tick %d); handled=%v", b, a, a, ret[a], b, call[b], handled)
			}
		}
	}
	if r.Len() != 0 {
		res.Fail("all threads finished but the ring still holds %d elements", r.Len())
	}
	if active != 0 {
		res.Fail("a worker is still marked active at the end")
	}
	return res, info
}

func genRingProg(t *rapid.T) ringProg {
	p := ringProg{}
	p.MaxLen = rapid.SampledFrom([]int{0, 0, 1, 1, 2}).Draw(t, "maxLen")
	np := rapid.IntRange(2, 3).Draw(t, "pushers")
	forceBias := rapid.IntRange(0, 2).Draw(t, "forceBias") // 0 never force, 1 mixed, 2 mostly force
	for i := 0; i < np; i++ {
		n := rapid.IntRange(1, 4).Draw(t, "n")
		ops := make([]bool, n)
		for k := range ops {
			switch forceBias {
			case 1:
				ops[k] = rapid.Bool().Draw(t, "force")
			case 2:
				ops[k] = rapid.IntRange(0, 7).Draw(t, "force8") != 0
			}
		}
		p.Pushers = append(p.Pushers, ops)
	}
	p.Die = rapid.IntRange(0, 3).Draw(t, "die") == 0
	p.WorkYields = rapid.SampledFrom([]int{1, 1, 2, 6}).Draw(t, "workYields")
	return p
}

func ringNontrivial(res *sched.Result, in ringInfo) bool {
	// at least one element reached a worker through dropPeek (a push landed while a
	// worker was alive) and the schedule preempted a thread at least once
	return in.viaDrop >= 1 && res.Preemptions >= 1
}

func ringClasses(p ringProg, res *sched.Result, in ringInfo) {
	ev.Class("ring:cases")
	if in.viaDrop > 0 {
		ev.Class("ring:push-while-worker-alive")
	}
	if in.workers > 1 {
		ev.Class("ring:worker-respawned")
	}
	if in.waits > 0 {
		ev.Class("ring:pusher-blocked-on-full")
	}
	if in.grew {
		ev.Class("ring:grew-past-8")
	}
	if in.shrank {
		ev.Class("ring:shrank-back")
	}
	if in.rejected > 0 {
		ev.Class("ring:push-rejected-after-die")
	}
	if in.deadHandled {
		ev.Class("ring:element-handled-as-dead")
	}
	if p.Die {
		ev.Class("ring:die")
	}
	ev.Class(fmt.Sprintf("ring:maxLen=%d", p.MaxLen))
}

type sample struct {
	Program  any    `json:"program"`
	Text     string `json:"text"`
	Schedule string `json:"schedule"`
	Steps    int    `json:"steps"`
	Preempt  int    `json:"preemptions"`
	Mode     string `json:"mode"`
}

func mkSample(prog any, text string, res *sched.Result, mode string) any {
	return sample{prog, text, res.TraceString(), res.Steps, res.Preemptions, mode}
}

type replayFile struct {
	Kind    string    `json:"kind"` // ring | workloop
	Ring    *ringProg `json:"ring,omitempty"`
	WL      *wlProg   `json:"workloop,omitempty"`
	MaxPre  int       `json:"max_preemptions"` // -1 = unbounded; part of the meaning of choices
	Choices []int32   `json:"choices"`
	Msg     string    `json:"message"`
	Trace   string    `json:"trace"`
}

// report turns a non-OK result into the test failure (or infrastructure message).
func report(t interface {
	Fatalf(string, ...any)
}, res *sched.Result, text string, rf replayFile, writeReplay bool) {
	if res.Kind == sched.OK {
		return
	}
	if res.Kind == sched.Infra {
		t.Fatalf("VERIF-INFRA: %s: %s", text, res.Msg)
	}
	rf.Choices, rf.Msg, rf.Trace = res.Choices, res.Msg, res.TraceString()
	if writeReplay {
		ev.Replay("c30-"+rf.Kind+"-schedule.json", rf)
	}
	t.Fatalf("C30 violated by %s\n  %s\n  schedule: %s\n  choices: %s", text, res.Msg, res.TraceString(), res.ChoiceString())
}

var unb = sched.Config{MaxPreemptions: sched.Unbounded}

func rapidChooser(t *rapid.T) func(int) int {
	return func(n int) int { return rapid.IntRange(0, n-1).Draw(t, "c") }
}

func TestRingRapid(t *testing.T) {
	if os.Getenv("VERIF_REPLAY") != "" && !strings.HasSuffix(os.Getenv("VERIF_REPLAY"), ".fail") {
		t.Skip("schedule replay runs in TestReplay")
	}
	rapid.Check(t, func(t *rapid.T) {
		p := genRingProg(t)
		res, in := runRing(unb, p, rapidChooser(t))
		ev.Case(p.String()+"|"+res.ChoiceString(), ringNontrivial(res, in))
		ringClasses(p, res, in)
		ev.ClassN("schedules:random", 1)
		if res.Deadlock {
			ev.Class("deadlocks-found")
		}
		if ringNontrivial(res, in) {
			ev.SampleIf(func() any { return mkSample(p, p.String(), res, "random") })
		}
		report(t, res, p.String(), replayFile{Kind: "ring", Ring: &p, MaxPre: -1}, false)
	})
}

// ---------------------------------------------------------------------------------
// workLoop

// wlProg is a generated workLoop program.
type wlProg struct {
	Signals []int  `json:"signals"` // per signaller thread: number of signals (maybeBegin, spawn if it says so)
	Again   []bool `json:"again"`   // the `again` argument of the i-th maybeFinish overall (false once exhausted)
	HardAt  int    `json:"hard_at"` // overall work-iteration index that hardFinishes instead of working; -1 never
}

func (p wlProg) String() string {
	return fmt.Sprintf("workLoop signals=%v again=%v hardAt=%d", p.Signals, p.Again, p.HardAt)
}

type wlInfo struct {
	signals, coalesced, workers, iters int
	hard                               bool
}

type sigRec struct {
	who      string
	callStep int // scheduler step the signaller was in when it called maybeBegin
	retStep  int // step in which maybeBegin's last atomic operation took effect
	began    bool
}

// runWL executes p and evaluates the oracle. Stamps are scheduler step numbers: every
// atomic operation is one step, and a thread runs from the effect of one operation to
// the announcement of its next without interruption, so s.Steps() read right after a
// call returns is the step of that call's last atomic operation.
func runWL(cfg sched.Config, p wlProg, choose func(int) int) (*sched.Result, wlInfo) {
	var (
		wl         x.WorkLoop
		info       wlInfo
		sigs       []sigRec
		iterStarts []int
		hardSteps  []int
		inWork     int
		iter       int
		nworkers   int
	)
	res := sched.Run(cfg, choose, func(s *sched.S) {
		worker := func() {
			nworkers++
			w := nworkers
			s.Go(fmt.Sprintf("w%d", w), func() {
				// sink.drain / source.loopFetch / consumer.doOnMetadataUpdate:
				//   again := true; for again { work; again = l.maybeFinish(more) }
				// with the hardFinish-and-return exits of drain/loopFetch.
				again := true
				for again {
					it := iter
					iter++
					if it == p.HardAt {
						wl.HardFinish()
						hardSteps = append(hardSteps, s.Steps())
						info.hard = true
						return
					}
					inWork++
					if inWork != 1 {
						s.Failf("two workers are in the work section at the same time (w%d entered)", w)
					}
					iterStarts = append(iterStarts, s.Steps())
					sched.Yield() // the work takes time
					inWork--
					a := false
					if it < len(p.Again) {
						a = p.Again[it]
					}
					again = wl.MaybeFinish(a)
				}
			})
		}
		for i, n := range p.Signals {
			i, n := i, n
			s.Go(fmt.Sprintf("s%d", i), func() {
				for k := 0; k < n; k++ {
					rec := sigRec{who: fmt.Sprintf("s%d#%d", i, k), callStep: s.Steps()}
					rec.began = wl.MaybeBegin()
					rec.retStep = s.Steps()
					sigs = append(sigs, rec)
					if rec.began {
						worker() // `if l.maybeBegin() { go work() }`
					} else {
						info.coalesced++
					}
				}
			})
		}
	})
	info.signals, info.workers, info.iters = len(sigs), nworkers, len(iterStarts)
	if res.Kind != sched.OK {
		return res, info
	}
	// "never loses a wake-up (after any signal a worker runs)": a work iteration starts
	// after the signal took effect - unless a hardFinish ran after the signal was called
	// (hardFinish is documented to discard a pending bump; only exclusion is asserted).
	for _, sg := range sigs {
		exempt := false
		for _, h := range hardSteps {
			if h > sg.callStep {
				exempt = true
			}
		}
		if exempt {
			continue
		}
		ok := false
		for _, st := range iterStarts {
			if st > sg.retStep {
				ok = true
				break
			}
		}
		if !ok {
			res.Fail("lost wake-up: signal %s took effect at step %d (maybeBegin returned %v) but no work iteration started after it; iteration starts at steps %v", sg.who, sg.retStep, sg.began, iterStarts)
		}
	}
	if inWork != 0 {
		res.Fail("a worker is still in the work section at the end")
	}
	if len(hardSteps) == 0 && wl.State() != 0 {
		res.Fail("all threads finished but the latch is in state %d, not unstarted", wl.State())
	}
	return res, info
}

func genWLProg(t *rapid.T) wlProg {
	p := wlProg{HardAt: -1}
	ns := rapid.IntRange(2, 3).Draw(t, "signallers")
	for i := 0; i < ns; i++ {
		p.Signals = append(p.Signals, rapid.IntRange(1, 3).Draw(t, "signals"))
	}
	na := rapid.IntRange(0, 3).Draw(t, "nagain")
	for i := 0; i < na; i++ {
		p.Again = append(p.Again, rapid.Bool().Draw(t, "again"))
	}
	if rapid.IntRange(0, 2).Draw(t, "hard") == 0 {
		p.HardAt = rapid.IntRange(0, 3).Draw(t, "hardAt")
	}
	return p
}

func wlNontrivial(res *sched.Result, in wlInfo) bool {
	// some signal found a worker running (maybeBegin returned false) and the schedule
	// preempted a thread at least once
	return in.coalesced >= 1 && res.Preemptions >= 1
}

func wlClasses(p wlProg, res *sched.Result, in wlInfo) {
	ev.Class("workloop:cases")
	if in.coalesced > 0 {
		ev.Class("workloop:signal-while-working")
	}
	if in.workers > 1 {
		ev.Class("workloop:worker-respawned")
	}
	if in.iters > in.workers {
		ev.Class("workloop:worker-looped-again")
	}
	if in.hard {
		ev.Class("workloop:hardFinish-ran")
	}
}

func TestWorkLoopRapid(t *testing.T) {
	if os.Getenv("VERIF_REPLAY") != "" && !strings.HasSuffix(os.Getenv("VERIF_REPLAY"), ".fail") {
		t.Skip("schedule replay runs in TestReplay")
	}
	rapid.Check(t, func(t *rapid.T) {
		p := genWLProg(t)
		res, in := runWL(unb, p, rapidChooser(t))
		ev.Case(p.String()+"|"+res.ChoiceString(), wlNontrivial(res, in))
		wlClasses(p, res, in)
		ev.ClassN("schedules:random", 1)
		if wlNontrivial(res, in) {
			ev.SampleIf(func() any { return mkSample(p, p.String(), res, "random") })
		}
		report(t, res, p.String(), replayFile{Kind: "workloop", WL: &p, MaxPre: -1}, false)
	})
}

// TestReplay re-executes a schedule replay file written by an exhaustive run
// (./check C30 --replay <file.json>). Rapid failures replay through -rapid.failfile.
func TestReplay(t *testing.T) {
	path := os.Getenv("VERIF_REPLAY")
	if path == "" || strings.HasSuffix(path, ".fail") {
		t.Skip("no schedule replay file")
	}
	b, err := os.ReadFile(path)
	if err != nil {
		t.Fatalf("VERIF-INFRA: %v", err)
	}
	var rf replayFile
	if err := json.Unmarshal(b, &rf); err != nil {
		t.Fatalf("VERIF-INFRA: replay file: %v", err)
	}
	switch rf.Kind {
	case "ring":
		res, in := runRing(sched.Config{MaxPreemptions: rf.MaxPre}, *rf.Ring, sched.Replay(rf.Choices))
		ev.Case(rf.Ring.String()+"|"+res.ChoiceString(), true)
		ev.Nontrivial("replay")
		ev.Sample(mkSample(rf.Ring, rf.Ring.String(), res, "replay"))
		_ = in
		report(t, res, rf.Ring.String(), rf, true)
	case "workloop":
		res, _ := runWL(sched.Config{MaxPreemptions: rf.MaxPre}, *rf.WL, sched.Replay(rf.Choices))
		ev.Case(rf.WL.String()+"|"+res.ChoiceString(), true)
		ev.Nontrivial("replay")
		ev.Sample(mkSample(rf.WL, rf.WL.String(), res, "replay"))
		report(t, res, rf.WL.String(), rf, true)
	default:
		t.Fatalf("VERIF-INFRA: unknown replay kind %q", rf.Kind)
	}
}
