package c30

import (
	"fmt"
	"os"
	"strings"
	"testing"

	"verif/h/ev"
	"verif/h/sched"
)

// Exhaustive part: for each configuration below EVERY schedule is executed (depth-first
// enumeration of the complete choice tree: at every synchronisation operation of every
// thread, every enabled thread is tried as the next one to run, and every waiter as the
// target of a Signal). The same oracle as in the random part judges each schedule.

func b(s string) []bool { // "pF" -> push, pushForce
	out := make([]bool, len(s))
	for i, c := range s {
		out[i] = c == 'F'
	}
	return out
}

func rp(maxLen int, die bool, pushers ...string) ringProg {
	p := ringProg{MaxLen: maxLen, Die: die, WorkYields: 1}
	for _, s := range pushers {
		p.Pushers = append(p.Pushers, b(s))
	}
	return p
}

func ringConfigs(thorough bool) []ringProg {
	cs := []ringProg{
		rp(0, false, "p", "p"),
		rp(1, false, "p", "p"),
		rp(1, false, "p", "F"),
		rp(2, false, "p", "p"),
		rp(0, true, "p", "p"),
		rp(1, true, "p", "p"),
		rp(1, true, "p", "F"),
		rp(0, false, "pp", "p"),
		rp(1, false, "pp", "p"),
		rp(1, false, "pF", "p"),
		rp(2, false, "pp", "p"),
		rp(0, false, "p", "p", "p"),
		rp(1, false, "p", "p", "p"),
		rp(1, false, "p", "p", "F"),
	}
	if thorough {
		cs = append(cs,
			rp(1, true, "pp", "p"),
			rp(2, true, "pp", "p"),
			rp(1, false, "pp", "pp"),
			rp(2, false, "pp", "pF"),
			rp(0, false, "pp", "pp"),
			rp(1, true, "p", "p", "p"),
			rp(2, false, "p", "p", "p"),
			rp(1, false, "pp", "p", "p"),
		)
	}
	return cs
}

func wp(hardAt int, again string, signals ...int) wlProg {
	p := wlProg{Signals: signals, HardAt: hardAt}
	for _, c := range again {
		p.Again = append(p.Again, c == 'T')
	}
	return p
}

func wlConfigs(thorough bool) []wlProg {
	cs := []wlProg{
		wp(-1, "", 1, 1),
		wp(-1, "T", 1, 1),
		wp(-1, "", 2, 1),
		wp(-1, "", 2, 2),
		wp(-1, "T", 2, 1),
		wp(-1, "", 1, 1, 1),
		wp(0, "", 1, 1),
		wp(1, "", 2, 1),
		wp(1, "", 1, 1, 1),
	}
	if thorough {
		cs = append(cs,
			wp(-1, "TT", 2, 2),
			wp(-1, "T", 1, 1, 1),
			wp(-1, "", 2, 1, 1),
			wp(-1, "", 3, 2),
			wp(1, "T", 2, 2),
			wp(2, "", 2, 1, 1),
			wp(-1, "", 2, 2, 1),
		)
	}
	return cs
}

var exh struct {
	states, transitions, schedules, configs, deadlocks int64
}

func publish() {
	ev.Extra("states", exh.states)
	ev.Extra("transitions", exh.transitions)
	ev.Extra("traces_validated_against_impl", exh.schedules)
	ev.Extra("schedules_exhaustive", exh.schedules)
	ev.Extra("exhaustive_configurations_completed", exh.configs)
	ev.Extra("deadlocks_found", exh.deadlocks)
}

func skipReplay(t *testing.T) {
	if os.Getenv("VERIF_REPLAY") != "" {
		t.Skip("replay run")
	}
}

func TestRingExhaustive(t *testing.T) {
	skipReplay(t)
	shard, n := ev.Shard()
	for i, p := range ringConfigs(ev.Thorough()) {
		if i%n != shard {
			continue
		}
		p := p
		var last *sched.Result
		var sampled bool
		st, bad := sched.Exhaust(0, func(choose func(int) int) *sched.Result {
			res, in := runRing(p, choose)
			nt := ringNontrivial(res, in)
			ev.Case(p.String()+"|"+res.ChoiceString(), nt)
			ringClasses(p, res, in)
			if nt && !sampled && res.Preemptions >= 2 {
				sampled = true
				ev.SampleIf(func() any { return mkSample(p, p.String(), res, "exhaustive") })
			}
			last = res
			return res
		})
		_ = last
		exh.states += st.States
		exh.transitions += st.Transitions
		exh.schedules += st.Schedules
		exh.deadlocks += st.Deadlocks
		ev.ClassN("schedules:exhaustive", st.Schedules)
		if bad != nil {
			publish()
			report(t, bad, p.String(), replayFile{Kind: "ring", Ring: &p}, true)
		}
		if !st.Complete {
			t.Fatalf("VERIF-INFRA: enumeration of %s did not complete", p)
		}
		exh.configs++
		ev.Extra("exhaustive: "+p.String(), st.Schedules)
		publish()
		t.Logf("%s: %d schedules, %d states, depth %d", p, st.Schedules, st.States, st.MaxDepth)
	}
}

func TestWorkLoopExhaustive(t *testing.T) {
	skipReplay(t)
	shard, n := ev.Shard()
	for i, p := range wlConfigs(ev.Thorough()) {
		if (i+3)%n != shard { // offset so that ring and workLoop configurations spread over the shards
			continue
		}
		p := p
		var sampled bool
		st, bad := sched.Exhaust(0, func(choose func(int) int) *sched.Result {
			res, in := runWL(p, choose)
			nt := wlNontrivial(res, in)
			ev.Case(p.String()+"|"+res.ChoiceString(), nt)
			wlClasses(p, res, in)
			if nt && !sampled && res.Preemptions >= 2 {
				sampled = true
				ev.SampleIf(func() any { return mkSample(p, p.String(), res, "exhaustive") })
			}
			return res
		})
		exh.states += st.States
		exh.transitions += st.Transitions
		exh.schedules += st.Schedules
		exh.deadlocks += st.Deadlocks
		ev.ClassN("schedules:exhaustive", st.Schedules)
		if bad != nil {
			publish()
			report(t, bad, p.String(), replayFile{Kind: "workloop", WL: &p}, true)
		}
		if !st.Complete {
			t.Fatalf("VERIF-INFRA: enumeration of %s did not complete", p)
		}
		exh.configs++
		ev.Extra("exhaustive: "+p.String(), st.Schedules)
		publish()
		t.Logf("%s: %d schedules, %d states, depth %d", p, st.Schedules, st.States, st.MaxDepth)
	}
}

var _ = fmt.Sprint
var _ = strings.Contains
