package c30

import (
	"fmt"
	"os"
	"testing"

	"verif/h/ev"
	"verif/h/sched"
)

// Systematic part. For each configuration below every schedule is executed: depth-first
// enumeration of the complete choice tree (at every synchronisation operation of every
// thread, every enabled thread is tried as the next one to run, and every waiter as the
// target of a Signal). Configurations marked with a preemption bound K enumerate every
// schedule with at most K preemptions instead (a preemption = taking the baton from a
// thread that could have continued; switches at blocking points are free). The same
// oracle as in the random part judges each schedule.

type exhCfg struct {
	ring     *ringProg
	wl       *wlProg
	bound    int   // sched.Unbounded or K
	est      int64 // measured number of schedules (for shard balancing only)
	thorough bool  // only in the thorough tier
}

func (c exhCfg) name() string {
	var n string
	if c.ring != nil {
		n = c.ring.String()
	} else {
		n = c.wl.String()
	}
	if c.bound >= 0 {
		n += fmt.Sprintf(" (<=%d preemptions)", c.bound)
	}
	return n
}

func bools(s string) []bool { // "pF" -> push, pushForce
	out := make([]bool, len(s))
	for i, c := range s {
		out[i] = c == 'F'
	}
	return out
}

func rp(maxLen int, die bool, pushers ...string) *ringProg {
	p := &ringProg{MaxLen: maxLen, Die: die, WorkYields: 1}
	for _, s := range pushers {
		p.Pushers = append(p.Pushers, bools(s))
	}
	return p
}

func wp(hardAt int, again string, signals ...int) *wlProg {
	p := &wlProg{Signals: signals, HardAt: hardAt}
	for _, c := range again {
		p.Again = append(p.Again, c == 'T')
	}
	return p
}

const U = sched.Unbounded

func exhConfigs() []exhCfg {
	return []exhCfg{
		// ring, complete trees
		{ring: rp(0, false, "p", "p"), bound: U, est: 72},
		{ring: rp(1, false, "p", "p"), bound: U, est: 74},
		{ring: rp(1, false, "p", "F"), bound: U, est: 74},
		{ring: rp(2, false, "p", "p"), bound: U, est: 74},
		{ring: rp(0, true, "p", "p"), bound: U, est: 7072},
		{ring: rp(1, true, "p", "p"), bound: U, est: 19448},
		{ring: rp(1, true, "p", "F"), bound: U, est: 15148},
		{ring: rp(0, false, "pp", "p"), bound: U, est: 918},
		{ring: rp(1, false, "pp", "p"), bound: U, est: 2210},
		{ring: rp(1, false, "pF", "p"), bound: U, est: 1790},
		{ring: rp(2, false, "pp", "p"), bound: U, est: 1690},
		{ring: rp(0, false, "p", "p", "p"), bound: U, est: 15408},
		{ring: rp(1, false, "p", "p", "p"), bound: U, est: 43638},
		{ring: rp(1, false, "p", "p", "F"), bound: U, est: 40262},
		{ring: rp(2, false, "p", "p", "p"), bound: U, est: 26982},
		{ring: rp(0, false, "pp", "pp"), bound: U, est: 12596},
		{ring: rp(2, false, "pp", "pF"), bound: U, est: 37117},
		{ring: rp(1, false, "pp", "pp"), bound: U, est: 73684, thorough: true},
		{ring: rp(2, false, "pp", "pp"), bound: U, est: 69352, thorough: true},
		{ring: rp(2, true, "pp", "p"), bound: U, est: 399858, thorough: true},
		{ring: rp(1, true, "pp", "p"), bound: U, est: 1257712, thorough: true},
		{ring: rp(0, true, "p", "p", "p"), bound: U, est: 2644800, thorough: true},
		{ring: rp(1, false, "pp", "p", "p"), bound: U, est: 3195826, thorough: true},
		// rp(1, true, "p", "p", "p") has 26,044,944 schedules (measured once, all passed); it is
		// enumerated up to 2 and 3 preemptions below to keep the thorough tier near 10 minutes
		// ring, every schedule with a bounded number of preemptions
		{ring: rp(1, false, "pp", "pp"), bound: 2, est: 2144},
		{ring: rp(2, true, "pp", "p"), bound: 2, est: 6409},
		{ring: rp(1, true, "pp", "p"), bound: 2, est: 21643},
		{ring: rp(1, false, "pp", "p", "p"), bound: 2, est: 52106},
		{ring: rp(1, true, "p", "p", "p"), bound: 2, est: 256464, thorough: true},
		{ring: rp(1, true, "p", "p", "p"), bound: 3, est: 1364952, thorough: true},
		{ring: rp(2, true, "pF", "pp", "p"), bound: 2, est: 1295039, thorough: true},
		{ring: rp(2, false, "FFFF", "FFFF", "pFp"), bound: 2, est: 465878, thorough: true}, // grows past 8 and shrinks back
		{ring: rp(2, false, "FFFFF", "FFFF"), bound: 2, est: 20000},                        // grows past 8 and shrinks back
		{ring: rp(1, false, "pp", "p", "p"), bound: 3, est: 237266, thorough: true},
		{ring: rp(2, true, "pp", "p"), bound: 3, est: 29865, thorough: true},
		// workLoop, complete trees
		{wl: wp(-1, "", 1, 1), bound: U, est: 580},
		{wl: wp(-1, "T", 1, 1), bound: U, est: 1344},
		{wl: wp(0, "", 1, 1), bound: U, est: 176},
		{wl: wp(1, "", 2, 1), bound: U, est: 120281},
		{wl: wp(-1, "", 2, 1), bound: U, est: 411615},
		{wl: wp(-1, "T", 2, 1), bound: U, est: 1098281, thorough: true},
		{wl: wp(1, "", 1, 1, 1), bound: U, est: 19468080, thorough: true},
		// workLoop, bounded preemptions
		{wl: wp(-1, "", 2, 2), bound: 2, est: 508},
		{wl: wp(-1, "", 1, 1, 1), bound: 2, est: 2580},
		{wl: wp(-1, "T", 1, 1, 1), bound: 2, est: 3006},
		{wl: wp(1, "", 1, 1, 1), bound: 2, est: 2226},
		{wl: wp(-1, "", 2, 1, 1), bound: 2, est: 5140},
		{wl: wp(2, "", 2, 1, 1), bound: 2, est: 4890},
		{wl: wp(-1, "", 2, 2, 1), bound: 2, est: 8632},
		{wl: wp(2, "TF", 3, 2, 2), bound: 2, est: 14896},
		{wl: wp(-1, "", 1, 1, 1), bound: 3, est: 14334},
		{wl: wp(-1, "", 2, 2), bound: 3, est: 3196},
		{wl: wp(-1, "TT", 2, 2), bound: 3, est: 4366},
		{wl: wp(-1, "", 2, 1, 1), bound: 3, est: 41528, thorough: true},
		{wl: wp(-1, "", 2, 2, 1), bound: 3, est: 91578, thorough: true},
		{wl: wp(2, "TF", 3, 2, 2), bound: 3, est: 216540, thorough: true},
		{wl: wp(-1, "", 3, 2), bound: 3, est: 5471},
		{wl: wp(-1, "", 1, 1, 1), bound: 4, est: 100000, thorough: true},
		{wl: wp(-1, "", 2, 2), bound: 4, est: 30000, thorough: true},
	}
}

var exh struct {
	states, transitions, schedules, complete, bounded, deadlocks int64
}

func publish() {
	ev.Extra("states", exh.states)
	ev.Extra("transitions", exh.transitions)
	ev.Extra("traces_validated_against_impl", exh.schedules)
	ev.Extra("schedules_enumerated", exh.schedules)
	ev.Extra("configurations_enumerated_completely", exh.complete)
	ev.Extra("configurations_enumerated_up_to_a_preemption_bound", exh.bounded)
	ev.Extra("deadlocks_found", exh.deadlocks)
}

func TestExhaustive(t *testing.T) {
	if os.Getenv("VERIF_REPLAY") != "" {
		t.Skip("replay run")
	}
	var cfgs []exhCfg
	var est []int64
	for _, c := range exhConfigs() {
		if c.thorough && !ev.Thorough() {
			continue
		}
		cfgs = append(cfgs, c)
		est = append(est, c.est)
	}
	shard, n := ev.Shard()
	publish()
	for _, i := range sched.Assign(est, shard, n) {
		c := cfgs[i]
		cfg := sched.Config{MaxPreemptions: c.bound}
		name := c.name()
		sampled := false
		st, bad := sched.Exhaust(0, func(choose func(int) int) *sched.Result {
			var res *sched.Result
			var nt bool
			if c.ring != nil {
				var in ringInfo
				res, in = runRing(cfg, *c.ring, choose)
				nt = ringNontrivial(res, in)
				ringClasses(*c.ring, res, in)
			} else {
				var in wlInfo
				res, in = runWL(cfg, *c.wl, choose)
				nt = wlNontrivial(res, in)
				wlClasses(*c.wl, res, in)
			}
			ev.Case(name+"|"+res.ChoiceString(), nt)
			if nt && !sampled && res.Preemptions >= 2 {
				sampled = true
				ev.SampleIf(func() any { return mkSample(progOf(c), name, res, "enumerated") })
			}
			return res
		})
		exh.states += st.States
		exh.transitions += st.Transitions
		exh.schedules += st.Schedules
		exh.deadlocks += st.Deadlocks
		ev.ClassN("schedules:enumerated", st.Schedules)
		if bad != nil {
			publish()
			rf := replayFile{Kind: "ring", Ring: c.ring, MaxPre: c.bound}
			if c.wl != nil {
				rf = replayFile{Kind: "workloop", WL: c.wl, MaxPre: c.bound}
			}
			report(t, bad, name, rf, true)
		}
		if !st.Complete {
			t.Fatalf("VERIF-INFRA: enumeration of %s did not complete", name)
		}
		if c.bound < 0 {
			exh.complete++
		} else {
			exh.bounded++
		}
		ev.Extra("enumerated: "+name, st.Schedules)
		publish()
		t.Logf("%s: %d schedules, %d states, depth %d", name, st.Schedules, st.States, st.MaxDepth)
	}
}

func progOf(c exhCfg) any {
	if c.ring != nil {
		return c.ring
	}
	return c.wl
}
