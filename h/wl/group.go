package wl

import (
	"context"
	"encoding/binary"
	"fmt"
	"runtime"
	"sort"
	"strings"
	"sync"
	"sync/atomic"
	"time"

	"github.com/twmb/franz-go/pkg/kfake"
	"github.com/twmb/franz-go/pkg/kgo"
	"github.com/twmb/franz-go/pkg/kmsg"
	"pgregory.net/rapid"

	"verif/h/bubble"
)

// ---------- plan ----------

type GroupStep struct {
	Delay time.Duration
	Kind  string // join | leave | addtopic | mktopic | addparts | append | force | sleep
	Slot  int
	Topic int
	N     int
	Close bool // leave by Close (true) or LeaveGroup (false)
	Dur   time.Duration
	Part  int32
	// LogAt > 0 (leave steps): the leave is issued from the member's own log stream, at the
	// LogAt-th line the client logs after the step begins, on the goroutine that logs it
	// (kgo calls its logger synchronously): a schedule point between two statements of the
	// heartbeat / rebalance machinery instead of a virtual instant.
	LogAt int
}

type GroupPlan struct {
	Brokers    int
	Protocol   string // range | roundrobin | sticky | coop | 848-uniform | 848-range
	Topics     []string
	Parts      []int32
	Late       []bool // topic created by a later mktopic step, not seeded
	Regex      bool   // members subscribe with a regex matching all topics
	Slots      int
	InitTopics [][]int // per slot: indices of topics it subscribes to initially (non-regex)
	Prefill    int
	AutoCommit time.Duration
	PollMax    int
	PollEvery  time.Duration
	Steps      []GroupStep
	// DefaultRevoke leaves OnPartitionsRevoked/Lost unset so the client's default revoke
	// handling (blocking commit of non-dirty offsets) runs: C08. Ownership is then not tracked.
	DefaultRevoke bool
	// RevokeWork is how long OnPartitionsRevoked/Lost take (an application flushing state):
	// the previous owner releases a partition only when its callback returns, possibly
	// several heartbeat intervals after the revocation started.
	RevokeWork time.Duration
	// HB848 is the broker-dictated KIP-848 heartbeat interval in ms (0 = kfake's default of 5 s).
	HB848 int
	// NoTraffic switches the background producer off: with no prefill and no append steps the
	// topics stay empty, members never consume anything and never have anything to commit (an
	// idle group, a common state that takes different client paths at a revocation).
	NoTraffic bool
}

// GroupFocus narrows GenGroupPlanF to a denser sub-domain of the same plan space.
type GroupFocus struct {
	Only848    bool // KIP-848 protocols only
	Scarce     bool // always fewer partitions than members
	SlowRevoke bool // revoke callbacks that outlast several (fast) heartbeats
	CoopIdle   bool // classic cooperative-sticky only, members join one after another on topics that carry no records (nothing is ever uncommitted)
	CoopMulti  bool // incremental protocols only (cooperative-sticky, KIP-848), 2-3 topics of up to 6 partitions, every member subscribed to at least two
}

func GenGroupPlan(t *rapid.T) GroupPlan { return GenGroupPlanF(t, GroupFocus{}) }

func GenGroupPlanF(t *rapid.T, f GroupFocus) GroupPlan {
	p := GroupPlan{}
	p.Brokers = rapid.IntRange(1, 3).Draw(t, "brokers")
	protos := []string{"range", "roundrobin", "sticky", "coop", "coop", "848-uniform", "848-range"}
	if f.Only848 {
		protos = []string{"848-uniform", "848-range"}
	}
	if f.CoopMulti {
		protos = []string{"coop", "coop", "848-uniform", "848-range"}
	}
	if f.CoopIdle {
		protos = []string{"coop"}
	}
	p.Protocol = rapid.SampledFrom(protos).Draw(t, "protocol")
	// scarce plans have fewer partitions than members, so that rebalances leave members with
	// nothing at all (a member losing its whole assignment takes different client paths)
	scarce := rapid.IntRange(0, 2).Draw(t, "scarce") == 0 || f.Scarce
	nt := rapid.IntRange(1, 3).Draw(t, "ntopics")
	maxParts := 4
	if scarce {
		nt, maxParts = 1, 2
	}
	if f.CoopMulti {
		scarce, nt, maxParts = false, rapid.IntRange(2, 3).Draw(t, "ntopics-multi"), 6
	}
	if f.CoopIdle {
		scarce, nt, maxParts = false, rapid.IntRange(1, 2).Draw(t, "ntopics-idle"), 8
	}
	for i := 0; i < nt; i++ {
		p.Topics = append(p.Topics, fmt.Sprintf("g%d", i))
		p.Parts = append(p.Parts, int32(rapid.IntRange(1, maxParts).Draw(t, "parts")))
		p.Late = append(p.Late, i > 0 && rapid.IntRange(0, 3).Draw(t, "late") == 0)
	}
	p.Regex = rapid.IntRange(0, 3).Draw(t, "regex") == 0
	p.Slots = rapid.IntRange(1, 5).Draw(t, "slots")
	if scarce && p.Slots < 3 {
		p.Slots = 3
	}
	if f.CoopIdle {
		p.Slots = rapid.IntRange(3, 5).Draw(t, "slots-idle")
	}
	for s := 0; s < p.Slots; s++ {
		var ts []int
		for i := 0; i < nt; i++ {
			if i == 0 || f.CoopMulti && i == 1 || rapid.IntRange(0, 2).Draw(t, "sub") != 0 {
				ts = append(ts, i)
			}
		}
		p.InitTopics = append(p.InitTopics, ts)
	}
	p.Prefill = rapid.IntRange(0, 10).Draw(t, "prefill")
	p.NoTraffic = rapid.IntRange(0, 5).Draw(t, "notraffic") == 0
	if f.CoopIdle {
		p.Prefill = 0
		p.NoTraffic = rapid.IntRange(0, 3).Draw(t, "notraffic-idle") != 0
	}
	p.AutoCommit = rapid.SampledFrom([]time.Duration{200 * time.Millisecond, time.Second, 5 * time.Second}).Draw(t, "autocommit")
	p.PollMax = rapid.SampledFrom([]int{0, 0, 1, 3}).Draw(t, "pollmax")
	p.PollEvery = rapid.SampledFrom([]time.Duration{10 * time.Millisecond, 100 * time.Millisecond, time.Second}).Draw(t, "pollevery")
	ns := rapid.IntRange(2, 25).Draw(t, "nsteps")
	kinds := []string{"join", "join", "join", "leave", "leave", "addtopic", "mktopic", "addparts", "append", "append", "append", "force", "sleep"}
	if f.CoopIdle {
		kinds = []string{"join", "join", "join", "join", "leave", "addparts", "force", "sleep", "sleep"}
	}
	delays := []time.Duration{0, 0, 10 * time.Millisecond, 300 * time.Millisecond, 2 * time.Second, 8 * time.Second}
	for i := 0; i < ns; i++ {
		s := GroupStep{Delay: rapid.SampledFrom(delays).Draw(t, "delay"), Kind: rapid.SampledFrom(kinds).Draw(t, "kind")}
		if i == 0 {
			s.Kind = "join"
		}
		s.Slot = rapid.IntRange(0, p.Slots-1).Draw(t, "slot")
		s.Topic = rapid.IntRange(0, nt-1).Draw(t, "topic")
		switch s.Kind {
		case "leave":
			s.Close = rapid.Bool().Draw(t, "byclose")
			if rapid.Bool().Draw(t, "leaveatlog?") {
				s.LogAt = rapid.IntRange(1, 12).Draw(t, "leaveatlog")
			}
		case "append":
			s.N = rapid.IntRange(1, 6).Draw(t, "n")
			s.Part = int32(rapid.IntRange(0, 7).Draw(t, "part"))
		case "addparts":
			s.N = rapid.IntRange(1, 2).Draw(t, "n")
		case "sleep":
			s.Dur = rapid.SampledFrom([]time.Duration{time.Second, 10 * time.Second, 40 * time.Second}).Draw(t, "dur")
		}
		p.Steps = append(p.Steps, s)
	}
	if f.CoopIdle {
		// every member joins on its own, far enough apart for the previous rebalance to finish:
		// the first member is then asked to give partitions up several times in a row without
		// ever gaining one in between; a few of the generated steps follow
		var joins []GroupStep
		for slot := 0; slot < p.Slots; slot++ {
			joins = append(joins, GroupStep{Kind: "join", Slot: slot, Delay: rapid.SampledFrom([]time.Duration{300 * time.Millisecond, 2 * time.Second, 8 * time.Second, 20 * time.Second}).Draw(t, "joingap")})
		}
		keep := rapid.IntRange(0, 3).Draw(t, "extrasteps")
		if keep > len(p.Steps) {
			keep = len(p.Steps)
		}
		p.Steps = append(joins, p.Steps[:keep]...)
	}
	p.RevokeWork = rapid.SampledFrom([]time.Duration{0, 0, 50 * time.Millisecond, 700 * time.Millisecond, 3 * time.Second}).Draw(t, "revokework")
	p.HB848 = rapid.SampledFrom([]int{0, 100, 300}).Draw(t, "hb848")
	if f.SlowRevoke {
		p.RevokeWork = rapid.SampledFrom([]time.Duration{700 * time.Millisecond, 3 * time.Second}).Draw(t, "slowrevoke")
		p.HB848 = rapid.SampledFrom([]int{100, 300}).Draw(t, "fasthb848")
	}
	return p
}

func (p GroupPlan) Brief() string {
	var b strings.Builder
	fmt.Fprintf(&b, "brokers=%d proto=%s topics=%v parts=%v late=%v regex=%v slots=%d init=%v prefill=%d autocommit=%v pollmax=%d pollevery=%v revokework=%v hb848=%d notraffic=%v steps:", p.Brokers, p.Protocol, p.Topics, p.Parts, p.Late, p.Regex, p.Slots, p.InitTopics, p.Prefill, p.AutoCommit, p.PollMax, p.PollEvery, p.RevokeWork, p.HB848, p.NoTraffic)
	for i, s := range p.Steps {
		fmt.Fprintf(&b, " [%d +%v %s", i, s.Delay, s.Kind)
		switch s.Kind {
		case "join", "force":
			fmt.Fprintf(&b, " slot=%d", s.Slot)
		case "leave":
			fmt.Fprintf(&b, " slot=%d close=%v logat=%d", s.Slot, s.Close, s.LogAt)
		case "addtopic":
			fmt.Fprintf(&b, " slot=%d t=%d", s.Slot, s.Topic)
		case "mktopic":
			fmt.Fprintf(&b, " t=%d", s.Topic)
		case "addparts":
			fmt.Fprintf(&b, " t=%d n=%d", s.Topic, s.N)
		case "append":
			fmt.Fprintf(&b, " t=%d p=%d n=%d", s.Topic, s.Part, s.N)
		case "sleep":
			fmt.Fprintf(&b, " %v", s.Dur)
		}
		b.WriteString("]")
	}
	return b.String()
}

// ---------- observation ----------

// OwnEv is one ownership callback event.
type OwnEv struct {
	N      int // log index
	Member string
	Kind   string // assigned | revoked | lost
	TP     TP
}

// PollEv is one poll of one member incarnation.
type PollEv struct {
	Member  string
	StartN  int
	EndN    int
	Offsets map[TP][]int64
}

// CommitEv is one partition entry of an OffsetCommit request seen by the broker.
type CommitEv struct {
	N        int
	MemberID string
	TP       TP
	TopicID  [16]byte
	Offset   int64
}

type GroupObs struct {
	LeavesAtLog           atomic.Int64 // leaves issued from a client log line
	Plan                  GroupPlan
	Log                   *bubble.History
	mu                    sync.Mutex
	Own                   []OwnEv
	Polls                 []*PollEv
	Commits               []CommitEv
	DualOwnership         string
	Moves                 int // partitions that changed hands between two members that were both alive
	Joined                int
	Left                  int
	Live                  map[string][]string // live member name -> subscribed topics at the end
	TopicParts            map[string]int32    // final partition counts of created topics
	Returned              map[TP]map[int64]bool
	Truth                 map[TP][]bubble.LogRec
	Committed             map[TP]int64
	FinalOwner            map[TP]string
	Unowned               []TP
	MultiOwned            []string
	RebalanceBetweenPolls bool
	LeaveErrs             []string
}

type gmember struct {
	name   string
	cl     *kgo.Client
	stop   chan struct{}
	done   chan struct{}
	topics map[string]bool
	// schedule point: when armed > 0 every log line of the client decrements it, and the
	// line that brings it to zero runs armedFn on the logging goroutine
	armed   atomic.Int64
	armedFn atomic.Value // func()
}

// memberLogger is the kgo.Logger of a group member (see GroupStep.LogAt).
type memberLogger struct{ m *gmember }

func (memberLogger) Level() kgo.LogLevel { return kgo.LogLevelDebug }
func (l memberLogger) Log(kgo.LogLevel, string, ...any) {
	if l.m.armed.Load() > 0 && l.m.armed.Add(-1) == 0 {
		if f, ok := l.m.armedFn.Load().(func()); ok {
			f()
			runtime.Gosched()
		}
	}
}

// RunGroup executes the plan. It asserts nothing (except recording the first dual-ownership
// it sees at callback time, which needs the live owner map).
func RunGroup(e *bubble.Env, p GroupPlan) *GroupObs {
	o := &GroupObs{Plan: p, Log: e.Log, Live: map[string][]string{}, TopicParts: map[string]int32{}, Returned: map[TP]map[int64]bool{}, Truth: map[TP][]bubble.LogRec{}, Committed: map[TP]int64{}, FinalOwner: map[TP]string{}}
	seed := map[string]int32{}
	for i, t := range p.Topics {
		if !p.Late[i] {
			seed[t] = p.Parts[i]
			o.TopicParts[t] = p.Parts[i]
		}
	}
	var extra []kfake.Opt
	if p.HB848 > 0 {
		extra = append(extra, kfake.BrokerConfigs(map[string]string{"group.consumer.heartbeat.interval.ms": fmt.Sprint(p.HB848)}))
	}
	e.StartCluster(bubble.ClusterOpts{Brokers: p.Brokers, Topics: seed, Extra: extra})
	admin := e.NewClient(kgo.ClientID("verif-admin"))
	prod := e.NewClient(kgo.ClientID("verif-producer"), kgo.RecordPartitioner(kgo.ManualPartitioner()), kgo.ProducerLinger(0))
	var nextID int64
	appendRecs := func(topic string, part int32, n int) {
		np, ok := o.TopicParts[topic]
		if !ok || np == 0 {
			return
		}
		part = part % np
		var recs []*kgo.Record
		for i := 0; i < n; i++ {
			nextID++
			v := make([]byte, 16)
			binary.BigEndian.PutUint64(v, uint64(nextID))
			recs = append(recs, &kgo.Record{Topic: topic, Partition: part, Value: v})
		}
		ctx, cancel := context.WithTimeout(context.Background(), 2*time.Minute)
		err := prod.ProduceSync(ctx, recs...).FirstErr()
		cancel()
		o.Log.Add("append", int64(n), fmt.Sprintf("%s/%d", topic, part), err, 0, 0)
	}
	for t, np := range seed {
		for pt := int32(0); pt < np; pt++ {
			if p.Prefill > 0 {
				appendRecs(t, pt, p.Prefill)
			}
		}
	}
	// observe every OffsetCommit at the broker
	e.Cluster.ControlKey(int16(kmsg.OffsetCommit), func(kreq kmsg.Request) (kmsg.Response, error, bool) {
		e.Cluster.KeepControl()
		req := kreq.(*kmsg.OffsetCommitRequest)
		if req.Group != "verif-group" {
			return nil, nil, false
		}
		for _, t := range req.Topics {
			for _, pt := range t.Partitions {
				n := o.Log.Add("commit-seen", pt.Offset, fmt.Sprintf("%s/%d member=%s gen=%d", t.Topic, pt.Partition, req.MemberID, req.Generation), nil, 0, 0)
				o.mu.Lock()
				o.Commits = append(o.Commits, CommitEv{N: n, MemberID: req.MemberID, TP: TP{t.Topic, pt.Partition}, TopicID: t.TopicID, Offset: pt.Offset})
				o.mu.Unlock()
			}
		}
		return nil, nil, false
	})

	owner := map[TP]string{} // guarded by o.mu; updated inside callbacks
	lastOwnerEver := map[TP]string{}
	members := make([]*gmember, p.Slots)
	incarn := make([]int, p.Slots)
	lastPollEnd := map[string]int{}

	balancer := func() kgo.GroupBalancer {
		switch p.Protocol {
		case "range", "848-range":
			return kgo.RangeBalancer()
		case "roundrobin":
			return kgo.RoundRobinBalancer()
		case "sticky", "848-uniform":
			return kgo.StickyBalancer()
		default:
			return kgo.CooperativeStickyBalancer()
		}
	}
	join := func(slot int) {
		if members[slot] != nil {
			return
		}
		incarn[slot]++
		name := fmt.Sprintf("m%d.%d", slot, incarn[slot])
		m := &gmember{name: name, stop: make(chan struct{}), done: make(chan struct{}), topics: map[string]bool{}}
		cb := func(kind string) func(context.Context, *kgo.Client, map[string][]int32) {
			return func(_ context.Context, _ *kgo.Client, ps map[string][]int32) {
				var tps []TP
				for t, parts := range ps {
					for _, pt := range parts {
						tps = append(tps, TP{t, pt})
					}
				}
				sort.Slice(tps, func(i, j int) bool { return tps[i].String() < tps[j].String() })
				if kind != "assigned" && p.RevokeWork > 0 && len(tps) > 0 {
					o.Log.Add(kind+"-begin", 0, fmt.Sprintf("%s %v", name, tps), nil, 0, 0)
					time.Sleep(p.RevokeWork)
				}
				o.mu.Lock()
				defer o.mu.Unlock()
				for _, tp := range tps {
					n := o.Log.Add(kind, 0, fmt.Sprintf("%s %s", name, tp), nil, 0, 0)
					o.Own = append(o.Own, OwnEv{N: n, Member: name, Kind: kind, TP: tp})
					switch kind {
					case "assigned":
						if cur, ok := owner[tp]; ok && cur != name && o.DualOwnership == "" && !p.DefaultRevoke {
							o.DualOwnership = fmt.Sprintf("%s assigned to %s at log #%d while %s still owns it (no revoked/lost callback of %s completed for it)", tp, name, n, cur, cur)
						}
						if prev, ok := lastOwnerEver[tp]; ok && prev != name {
							o.Moves++
						}
						owner[tp] = name
						lastOwnerEver[tp] = name
					default:
						if owner[tp] == name {
							delete(owner, tp)
						}
					}
				}
			}
		}
		opts := []kgo.Opt{kgo.ClientID(name), kgo.ConsumerGroup("verif-group"), kgo.Balancers(balancer()),
			kgo.OnPartitionsAssigned(cb("assigned")),
			kgo.AutoCommitInterval(p.AutoCommit), kgo.HeartbeatInterval(300 * time.Millisecond), kgo.SessionTimeout(20 * time.Second), kgo.RebalanceTimeout(30 * time.Second),
			kgo.FetchMaxWait(200 * time.Millisecond), kgo.ConsumeResetOffset(kgo.NewOffset().AtStart())}
		if !p.DefaultRevoke {
			opts = append(opts, kgo.OnPartitionsRevoked(cb("revoked")), kgo.OnPartitionsLost(cb("lost")))
		}
		if p.Regex {
			opts = append(opts, kgo.ConsumeRegex(), kgo.ConsumeTopics("^g[0-9]+$"))
			for _, t := range p.Topics {
				m.topics[t] = true
			}
		} else {
			var ts []string
			for _, i := range p.InitTopics[slot] {
				ts = append(ts, p.Topics[i])
				m.topics[p.Topics[i]] = true
			}
			opts = append(opts, kgo.ConsumeTopics(ts...))
		}
		if strings.HasPrefix(p.Protocol, "848") {
			opts = append(opts, kgo.WithContext(context.WithValue(context.Background(), "opt_in_kafka_next_gen_balancer_beta", true))) //nolint
		}
		// the revoked callback must keep the default autocommit behaviour: wrap it
		opts = append(opts, kgo.WithLogger(memberLogger{m}))
		m.cl = e.NewClient(opts...)
		members[slot] = m
		o.Joined++
		o.Log.Add("join", int64(slot), name, nil, 0, 0)
		e.Go(func() {
			defer close(m.done)
			for {
				select {
				case <-m.stop:
					return
				default:
				}
				pe := &PollEv{Member: name, Offsets: map[TP][]int64{}}
				pe.StartN = o.Log.Add("poll-start", 0, name, nil, 0, 0)
				ctx, cancel := context.WithTimeout(context.Background(), 500*time.Millisecond)
				var fs kgo.Fetches
				if p.PollMax > 0 {
					fs = m.cl.PollRecords(ctx, p.PollMax)
				} else {
					fs = m.cl.PollFetches(ctx)
				}
				cancel()
				if fs.IsClientClosed() {
					return
				}
				fs.EachRecord(func(r *kgo.Record) {
					tp := TP{r.Topic, r.Partition}
					pe.Offsets[tp] = append(pe.Offsets[tp], r.Offset)
				})
				pe.EndN = o.Log.Add("poll-end", int64(fs.NumRecords()), name, nil, 0, 0)
				o.mu.Lock()
				o.Polls = append(o.Polls, pe)
				for tp, offs := range pe.Offsets {
					if o.Returned[tp] == nil {
						o.Returned[tp] = map[int64]bool{}
					}
					for _, x := range offs {
						o.Returned[tp][x] = true
					}
				}
				lastPollEnd[name] = pe.EndN
				o.mu.Unlock()
				select {
				case <-m.stop:
					return
				case <-time.After(p.PollEvery):
				}
			}
		})
	}
	leave := func(slot int, byClose bool, logAt int) {
		m := members[slot]
		if m == nil {
			return
		}
		members[slot] = nil
		o.Left++
		o.Log.Add("leave-start", int64(slot), m.name, nil, int64(logAt), 0)
		close(m.stop)
		bubble.WaitTimeout(m.done, Bound)
		done := make(chan struct{})
		var once sync.Once
		doLeave := func() {
			once.Do(func() {
				go func() {
					if byClose {
						m.cl.Close()
					} else {
						m.cl.LeaveGroup()
					}
					close(done)
				}()
			})
		}
		if logAt > 0 {
			m.armedFn.Store(func() { o.LeavesAtLog.Add(1); doLeave() })
			m.armed.Store(int64(logAt))
			bubble.WaitTimeout(done, 10*time.Second) // not enough log lines in 10 s: leave directly
			m.armed.Store(0)
		}
		doLeave()
		if !bubble.WaitTimeout(done, Bound) {
			o.LeaveErrs = append(o.LeaveErrs, fmt.Sprintf("%s: leave (close=%v) did not return within %v", m.name, byClose, Bound))
		}
		o.Log.Add("leave-done", int64(slot), m.name, nil, 0, 0)
		// ownership is only ever cleared by the member's own revoked/lost callback: if a
		// graceful leave skipped it, the next assignment of that partition is flagged
	}
	mktopic := func(i int) {
		t := p.Topics[i]
		if _, ok := o.TopicParts[t]; ok {
			return
		}
		req := kmsg.NewPtrCreateTopicsRequest()
		rt := kmsg.NewCreateTopicsRequestTopic()
		rt.Topic = t
		rt.NumPartitions = p.Parts[i]
		rt.ReplicationFactor = 1
		req.Topics = append(req.Topics, rt)
		req.TimeoutMillis = 5000
		ctx, cancel := context.WithTimeout(context.Background(), time.Minute)
		resp, err := req.RequestWith(ctx, admin)
		cancel()
		if err == nil && len(resp.Topics) == 1 && resp.Topics[0].ErrorCode == 0 {
			o.TopicParts[t] = p.Parts[i]
		}
		o.Log.Add("mktopic", 0, t, err, 0, 0)
	}
	addparts := func(i, n int) {
		t := p.Topics[i]
		cur, ok := o.TopicParts[t]
		if !ok {
			return
		}
		req := kmsg.NewPtrCreatePartitionsRequest()
		rt := kmsg.NewCreatePartitionsRequestTopic()
		rt.Topic = t
		rt.Count = cur + int32(n)
		req.Topics = append(req.Topics, rt)
		req.TimeoutMillis = 5000
		ctx, cancel := context.WithTimeout(context.Background(), time.Minute)
		resp, err := req.RequestWith(ctx, admin)
		cancel()
		if err == nil && len(resp.Topics) == 1 && resp.Topics[0].ErrorCode == 0 {
			o.TopicParts[t] = cur + int32(n)
		}
		o.Log.Add("addparts", int64(n), t, err, 0, 0)
	}

	// background traffic: one record every 250 ms, round-robin over topics and partitions, so
	// that the most recent poll of a member usually holds records not yet covered by a commit
	stopTraffic := make(chan struct{})
	trafficDone := make(chan struct{})
	// serialises the producer between the ticker and the steps; a channel, because a blocked
	// sync.Mutex.Lock is not 'durably blocked' for synctest and would freeze the virtual clock
	pmu := make(chan struct{}, 1)
	lock := func() { pmu <- struct{}{} }
	unlock := func() { <-pmu }
	e.Go(func() {
		defer close(trafficDone)
		if p.NoTraffic {
			<-stopTraffic
			return
		}
		for i := 0; ; i++ {
			select {
			case <-stopTraffic:
				return
			case <-time.After(250 * time.Millisecond):
			}
			lock()
			t := p.Topics[i%len(p.Topics)]
			appendRecs(t, int32(i/len(p.Topics)), 1)
			unlock()
		}
	})
	for _, s := range p.Steps {
		if s.Delay > 0 {
			time.Sleep(s.Delay)
		}
		lock()
		switch s.Kind {
		case "join":
			join(s.Slot)
		case "leave":
			leave(s.Slot, s.Close, s.LogAt)
		case "addtopic":
			if m := members[s.Slot]; m != nil && !p.Regex {
				t := p.Topics[s.Topic]
				if !m.topics[t] {
					m.topics[t] = true
					m.cl.AddConsumeTopics(t)
					o.Log.Add("addtopic", int64(s.Slot), t, nil, 0, 0)
				}
			}
		case "mktopic":
			mktopic(s.Topic)
		case "addparts":
			addparts(s.Topic, s.N)
		case "append":
			appendRecs(p.Topics[s.Topic], s.Part, s.N)
		case "force":
			if m := members[s.Slot]; m != nil {
				m.cl.ForceRebalance()
				o.Log.Add("force", int64(s.Slot), m.name, nil, 0, 0)
			}
		case "sleep":
			unlock()
			time.Sleep(s.Dur)
			lock()
		}
		unlock()
	}
	close(stopTraffic)
	<-trafficDone

	// ---------- settle: membership and subscriptions no longer change ----------
	anyLive := false
	for _, m := range members {
		if m != nil {
			anyLive = true
		}
	}
	if !anyLive {
		join(0)
	}
	time.Sleep(3 * time.Minute)
	e.Settle()
	o.mu.Lock()
	for tp, m := range owner {
		o.FinalOwner[tp] = m
	}
	o.mu.Unlock()
	for _, m := range members {
		if m == nil {
			continue
		}
		var ts []string
		for t := range m.topics {
			ts = append(ts, t)
		}
		sort.Strings(ts)
		o.Live[m.name] = ts
	}
	// every partition of every topic some live member subscribes to must have exactly one owner
	subscribed := map[string]bool{}
	for _, ts := range o.Live {
		for _, t := range ts {
			subscribed[t] = true
		}
	}
	for t, np := range o.TopicParts {
		if !subscribed[t] {
			continue
		}
		for pt := int32(0); pt < np; pt++ {
			if _, ok := o.FinalOwner[TP{t, pt}]; !ok {
				o.Unowned = append(o.Unowned, TP{t, pt})
			}
		}
	}
	sort.Slice(o.Unowned, func(i, j int) bool { return o.Unowned[i].String() < o.Unowned[j].String() })

	// ---------- drain and final commit state (C08) ----------
	time.Sleep(2*p.AutoCommit + 2*time.Second)
	for slot := range members {
		if members[slot] != nil {
			leave(slot, true, 0)
		}
	}
	raw := e.RawClient()
	for t, np := range o.TopicParts {
		for pt := int32(0); pt < np; pt++ {
			recs, _, err := e.ReadLog(raw, t, pt, 0)
			if err != nil {
				panic(fmt.Sprintf("VERIF-INFRA: raw log read %s/%d: %v", t, pt, err))
			}
			o.Truth[TP{t, pt}] = recs
		}
	}
	// newer OffsetCommit versions carry topic ids only: resolve them
	mreq := kmsg.NewPtrMetadataRequest()
	mctx, mcancel := context.WithTimeout(context.Background(), time.Minute)
	mresp, merr := mreq.RequestWith(mctx, raw)
	mcancel()
	if merr != nil {
		panic(fmt.Sprintf("VERIF-INFRA: Metadata: %v", merr))
	}
	id2name := map[[16]byte]string{}
	for _, t := range mresp.Topics {
		if t.Topic != nil {
			id2name[t.TopicID] = *t.Topic
		}
	}
	for i := range o.Commits {
		if o.Commits[i].TP.Topic == "" {
			o.Commits[i].TP.Topic = id2name[o.Commits[i].TopicID]
		}
	}
	freq := kmsg.NewPtrOffsetFetchRequest()
	freq.Group = "verif-group"
	rg := kmsg.NewOffsetFetchRequestGroup()
	rg.Group = "verif-group"
	freq.Groups = append(freq.Groups, rg)
	ctx, cancel := context.WithTimeout(context.Background(), time.Minute)
	fresp, err := freq.RequestWith(ctx, raw)
	cancel()
	if err != nil {
		panic(fmt.Sprintf("VERIF-INFRA: OffsetFetch: %v", err))
	}
	for _, g := range fresp.Groups {
		for _, t := range g.Topics {
			for _, pt := range t.Partitions {
				if pt.ErrorCode == 0 && pt.Offset >= 0 {
					o.Committed[TP{t.Topic, pt.Partition}] = pt.Offset
				}
			}
		}
	}
	for _, t := range fresp.Topics {
		for _, pt := range t.Partitions {
			if pt.ErrorCode == 0 && pt.Offset >= 0 {
				o.Committed[TP{t.Topic, pt.Partition}] = pt.Offset
			}
		}
	}
	return o
}

func (o *GroupObs) Digest() string {
	var ks []string
	for _, s := range o.Plan.Steps {
		ks = append(ks, s.Kind)
	}
	return fmt.Sprintf("%s|%d|%v|%v|%s", o.Plan.Protocol, o.Plan.Slots, o.Plan.Regex, o.Plan.Parts, strings.Join(ks, ","))
}
