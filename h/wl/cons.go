package wl

import (
	"context"
	"encoding/binary"
	"fmt"
	"os"
	"sort"
	"strings"
	"sync"
	"sync/atomic"
	"time"

	"github.com/twmb/franz-go/pkg/kerr"
	"github.com/twmb/franz-go/pkg/kfake"
	"github.com/twmb/franz-go/pkg/kgo"
	"github.com/twmb/franz-go/pkg/kmsg"
	"pgregory.net/rapid"

	"verif/h/bubble"
)

// ---------- plan ----------

type ConsCfg struct {
	ReadCommitted bool
	KeepControl   bool
	ByTopic       bool // ConsumeTopics (+reset offset start) instead of explicit partitions
	MaxWait       time.Duration
	MaxBytes      int32 // 0 = default
	MaxPartBytes  int32
	Concurrent    int
	NoSessions    bool
	KeepRetryable bool
}

type ConsStep struct {
	Delay time.Duration
	Kind  string // append | txappend | txend | poll | pause | resume | netfault | errcode | move | killall | sleep
	// producers
	Topic     int
	Partition int32
	N         int
	Txn       int  // which transactional producer
	Commit    bool // txend
	// poll
	MaxRecs int // 0 = PollFetches
	PollTO  time.Duration
	// pause/resume
	WholeTopic bool
	// faults
	Key  int16
	Act  bubble.Action
	Dur  time.Duration
	Code int16
	Top  bool // top-level fetch error (session errors) vs partition error
	Node int
}

type ConsPlan struct {
	Brokers    int
	Topics     []string
	Parts      []int32
	Prefill    [][]int   // records per topic/partition before the consumer starts
	Start      [][]int64 // start offset per topic/partition (explicit partitions)
	NTxn       int
	TxnTO      time.Duration
	Cfg        ConsCfg
	Steps      []ConsStep
	LeaveOpen  bool // leave the last transactions open at the end (C05)
	CloseEarly bool // close the consumer right after the steps, without draining (discards buffered fetches)
}

type ConsFocus struct {
	Txn      bool // transactional producers present
	ForceRC  bool // always read_committed (C05)
	NoFaults bool
	MaxSteps int
	// Interleaved narrows to the shape in which aborted-transaction bookkeeping matters most:
	// one partition, three transactional producers whose transactions overlap and nest,
	// small fetch sizes (responses end inside transactions) and no transport faults.
	Interleaved bool
}

var fetchTopCodes = []int16{kerr.FetchSessionIDNotFound.Code, kerr.InvalidFetchSessionEpoch.Code, kerr.FetchSessionTopicIDError.Code}
var fetchPartCodes = []int16{kerr.NotLeaderForPartition.Code, kerr.LeaderNotAvailable.Code, kerr.UnknownLeaderEpoch.Code, kerr.FencedLeaderEpoch.Code, kerr.KafkaStorageError.Code, kerr.OffsetNotAvailable.Code, kerr.ReplicaNotAvailable.Code, kerr.UnknownTopicID.Code}

func GenConsPlan(t *rapid.T, f ConsFocus) ConsPlan {
	p := ConsPlan{}
	p.Brokers = rapid.IntRange(1, 3).Draw(t, "brokers")
	nt := rapid.IntRange(1, 2).Draw(t, "ntopics")
	if f.Interleaved {
		nt = 1
	}
	for i := 0; i < nt; i++ {
		p.Topics = append(p.Topics, fmt.Sprintf("c%d", i))
		np := int32(rapid.IntRange(1, 3).Draw(t, "parts"))
		if f.Interleaved {
			np = 1
		}
		p.Parts = append(p.Parts, np)
		var pf []int
		var st []int64
		for j := int32(0); j < np; j++ {
			n := rapid.IntRange(0, 12).Draw(t, "prefill")
			pf = append(pf, n)
			st = append(st, int64(rapid.IntRange(0, n).Draw(t, "start")))
		}
		p.Prefill = append(p.Prefill, pf)
		p.Start = append(p.Start, st)
	}
	if f.Txn {
		p.NTxn = rapid.IntRange(1, 3).Draw(t, "ntxn")
		if f.Interleaved {
			p.NTxn = 3
		}
		p.TxnTO = rapid.SampledFrom([]time.Duration{10 * time.Second, 60 * time.Second}).Draw(t, "txnto")
		p.LeaveOpen = rapid.IntRange(0, 3).Draw(t, "leaveopen") == 0
	}
	c := &p.Cfg
	c.ReadCommitted = rapid.Bool().Draw(t, "rc")
	if f.Txn {
		c.ReadCommitted = rapid.IntRange(0, 4).Draw(t, "rc") != 0
	}
	if f.ForceRC {
		c.ReadCommitted = true
	}
	c.KeepControl = rapid.IntRange(0, 3).Draw(t, "keepcontrol") == 0
	c.ByTopic = rapid.IntRange(0, 2).Draw(t, "bytopic") == 0
	c.MaxWait = rapid.SampledFrom([]time.Duration{50 * time.Millisecond, 500 * time.Millisecond, 5 * time.Second}).Draw(t, "maxwait")
	c.MaxBytes = rapid.SampledFrom([]int32{0, 0, 300, 2000}).Draw(t, "maxbytes")
	c.MaxPartBytes = rapid.SampledFrom([]int32{0, 0, 150, 1000}).Draw(t, "maxpartbytes")
	if f.Interleaved {
		c.MaxBytes = rapid.SampledFrom([]int32{0, 150, 300, 300}).Draw(t, "smallmaxbytes")
		c.MaxPartBytes = rapid.SampledFrom([]int32{0, 1, 150}).Draw(t, "smallmaxpartbytes")
	}
	c.Concurrent = rapid.SampledFrom([]int{0, 0, 1}).Draw(t, "concurrent")
	c.NoSessions = rapid.IntRange(0, 4).Draw(t, "nosessions") == 0
	c.KeepRetryable = rapid.IntRange(0, 4).Draw(t, "keepretryable") == 0
	maxSteps := f.MaxSteps
	if maxSteps == 0 {
		maxSteps = 40
	}
	ns := rapid.IntRange(1, maxSteps).Draw(t, "nsteps")
	kinds := []string{"append", "append", "poll", "poll", "poll", "poll", "pause", "resume", "sleep"}
	if f.Txn {
		kinds = append(kinds, "txappend", "txappend", "txappend", "txend", "txend")
	}
	if f.Interleaved {
		kinds = []string{"txappend", "txappend", "txappend", "txappend", "txend", "txend", "append", "poll", "poll", "sleep"}
	}
	if !f.NoFaults {
		kinds = append(kinds, "netfault", "netfault", "errcode", "errcode", "move", "killall")
	}
	delays := []time.Duration{0, 0, 0, time.Millisecond, 20 * time.Millisecond, 300 * time.Millisecond, 3 * time.Second}
	for i := 0; i < ns; i++ {
		s := ConsStep{Delay: rapid.SampledFrom(delays).Draw(t, "delay"), Kind: rapid.SampledFrom(kinds).Draw(t, "kind")}
		s.Topic = rapid.IntRange(0, nt-1).Draw(t, "topic")
		s.Partition = int32(rapid.IntRange(0, int(p.Parts[s.Topic])-1).Draw(t, "partition"))
		switch s.Kind {
		case "append":
			s.N = rapid.IntRange(1, 8).Draw(t, "n")
		case "txappend":
			s.N = rapid.IntRange(1, 5).Draw(t, "n")
			s.Txn = rapid.IntRange(0, p.NTxn-1).Draw(t, "txn")
		case "txend":
			s.Txn = rapid.IntRange(0, p.NTxn-1).Draw(t, "txn")
			s.Commit = rapid.Bool().Draw(t, "commit")
		case "poll":
			s.MaxRecs = rapid.SampledFrom([]int{0, 0, 1, 2, 5}).Draw(t, "maxrecs")
			s.PollTO = rapid.SampledFrom([]time.Duration{0, 10 * time.Millisecond, 300 * time.Millisecond, 2 * time.Second}).Draw(t, "pollto")
		case "pause", "resume":
			s.WholeTopic = rapid.Bool().Draw(t, "wholetopic")
		case "netfault":
			s.Key = rapid.SampledFrom([]int16{1, 1, 1, 3, 2}).Draw(t, "key")
			s.Act = rapid.SampledFrom([]bubble.Action{bubble.KillBefore, bubble.DropResponse, bubble.DelayResponse, bubble.TruncResponse}).Draw(t, "act")
			s.Dur = rapid.SampledFrom([]time.Duration{50 * time.Millisecond, 2 * time.Second, 40 * time.Second}).Draw(t, "dur")
		case "errcode":
			s.Top = rapid.Bool().Draw(t, "top")
			if s.Top {
				s.Code = rapid.SampledFrom(fetchTopCodes).Draw(t, "code")
			} else {
				s.Code = rapid.SampledFrom(fetchPartCodes).Draw(t, "code")
			}
		case "move":
			s.Node = rapid.IntRange(0, p.Brokers-1).Draw(t, "node")
		case "sleep":
			s.Dur = rapid.SampledFrom([]time.Duration{time.Second, 15 * time.Second}).Draw(t, "dur")
		}
		p.Steps = append(p.Steps, s)
	}
	p.CloseEarly = rapid.IntRange(0, 3).Draw(t, "closeearly") == 0
	return p
}

func (p ConsPlan) Brief() string {
	var b strings.Builder
	fmt.Fprintf(&b, "brokers=%d topics=%v parts=%v prefill=%v start=%v ntxn=%d txnto=%v leaveopen=%v closeearly=%v cfg=%+v steps:", p.Brokers, p.Topics, p.Parts, p.Prefill, p.Start, p.NTxn, p.TxnTO, p.LeaveOpen, p.CloseEarly, p.Cfg)
	for i, s := range p.Steps {
		fmt.Fprintf(&b, " [%d +%v %s", i, s.Delay, s.Kind)
		switch s.Kind {
		case "append":
			fmt.Fprintf(&b, " t=%d p=%d n=%d", s.Topic, s.Partition, s.N)
		case "txappend":
			fmt.Fprintf(&b, " tx=%d t=%d p=%d n=%d", s.Txn, s.Topic, s.Partition, s.N)
		case "txend":
			fmt.Fprintf(&b, " tx=%d commit=%v", s.Txn, s.Commit)
		case "poll":
			fmt.Fprintf(&b, " max=%d to=%v", s.MaxRecs, s.PollTO)
		case "pause", "resume":
			fmt.Fprintf(&b, " t=%d p=%d whole=%v", s.Topic, s.Partition, s.WholeTopic)
		case "netfault":
			fmt.Fprintf(&b, " key=%d %s %v", s.Key, s.Act, s.Dur)
		case "errcode":
			fmt.Fprintf(&b, " code=%d top=%v", s.Code, s.Top)
		case "move":
			fmt.Fprintf(&b, " t=%d p=%d node=%d", s.Topic, s.Partition, s.Node)
		case "sleep":
			fmt.Fprintf(&b, " %v", s.Dur)
		}
		b.WriteString("]")
	}
	return b.String()
}

// ---------- execution ----------

type TP struct {
	Topic string
	Part  int32
}

func (tp TP) String() string { return fmt.Sprintf("%s/%d", tp.Topic, tp.Part) }

// Returned is one record handed to the application by a poll.
type Returned struct {
	TP      TP
	Offset  int64
	ID      int64
	TxnID   int64 // harness transaction id carried in the value (0 = plain)
	Control bool
	PollN   int // log index of the poll return
	Poll    int // poll ordinal
}

// TxnTruth is what the harness knows about one transaction it ran.
type TxnTruth struct {
	ID          int64
	Producer    int
	CommitStart int    // log index when EndTransaction(commit) was called (-1 if never)
	Outcome     string // commit | abort | unknown | open
}

type ConsObs struct {
	Plan               ConsPlan
	Log                *bubble.History
	Env                *bubble.Env
	Client             *kgo.Client
	Returned           []Returned
	ByTP               map[TP][]Returned
	OrderViolation     string
	Txns               map[int64]*TxnTruth
	Truth              map[TP][]bubble.LogRec // raw log per partition at the end
	HWM                map[TP]int64
	Aborted            map[TP]map[int64]bool // offsets of aborted or open transactional data records
	OpenTxn            map[TP]map[int64]bool // offsets of data records of still-open transactions
	Drained            bool
	ClosedEarly        bool
	TruthStable        bool
	StepKinds          []string
	FaultWhileBuffered bool
	PartialTake        bool
	PauseStrip         bool
	SessionErr         bool
	Moves              int
	// hooks
	hookMu                                sync.Mutex
	BufCount                              map[*kgo.Record]int
	UnbufCount                            map[*kgo.Record]int
	UnbufPolled                           map[*kgo.Record]bool
	HookOrderBad                          string
	FinalBufferedRecs, FinalBufferedBytes int64
	QuiescentBuffered                     []int64
	PollErrs                              []string
	PollsAfterCloseClosed                 bool
	polls                                 int
	mu                                    sync.Mutex
}

type consHooks struct{ o *ConsObs }

func (h consHooks) OnFetchRecordBuffered(r *kgo.Record) {
	h.o.hookMu.Lock()
	h.o.BufCount[r]++
	h.o.hookMu.Unlock()
}

func (h consHooks) OnFetchRecordUnbuffered(r *kgo.Record, polled bool) {
	h.o.hookMu.Lock()
	if h.o.BufCount[r] == 0 && h.o.HookOrderBad == "" {
		h.o.HookOrderBad = fmt.Sprintf("OnFetchRecordUnbuffered for %s/%d@%d before/without OnFetchRecordBuffered", r.Topic, r.Partition, r.Offset)
	}
	h.o.UnbufCount[r]++
	if polled {
		h.o.UnbufPolled[r] = true
	}
	h.o.hookMu.Unlock()
}

func val(id, txn int64, n int) []byte {
	if n < 16 {
		n = 16
	}
	v := make([]byte, n)
	binary.BigEndian.PutUint64(v, uint64(id))
	binary.BigEndian.PutUint64(v[8:], uint64(txn))
	return v
}

func fetchErrResp(req *kmsg.FetchRequest, code int16, top bool) kmsg.Response {
	resp := req.ResponseKind().(*kmsg.FetchResponse)
	if top {
		resp.ErrorCode = code
		return resp
	}
	// SessionID stays 0: the injected answer does not create or continue a fetch session
	// (claiming the request's session id would desynchronise client and broker sessions).
	for _, t := range req.Topics {
		rt := kmsg.NewFetchResponseTopic()
		rt.Topic = t.Topic
		rt.TopicID = t.TopicID
		for _, p := range t.Partitions {
			rp := kmsg.NewFetchResponseTopicPartition()
			rp.Partition = p.Partition
			rp.ErrorCode = code
			rp.HighWatermark = -1
			rp.LastStableOffset = -1
			rp.LogStartOffset = -1
			rt.Partitions = append(rt.Partitions, rp)
		}
		resp.Topics = append(resp.Topics, rt)
	}
	return resp
}

// AfterClusterStart is a debugging hook.
var AfterClusterStart func(*kfake.Cluster)

type txnProd struct {
	cl     *kgo.Client
	open   bool
	cur    *TxnTruth
	broken bool
}

// RunCons executes the plan. It asserts nothing.
func RunCons(e *bubble.Env, p ConsPlan, extra ...kgo.Opt) *ConsObs {
	o := &ConsObs{Plan: p, Log: e.Log, Env: e, ByTP: map[TP][]Returned{}, Txns: map[int64]*TxnTruth{}, Truth: map[TP][]bubble.LogRec{}, HWM: map[TP]int64{}, Aborted: map[TP]map[int64]bool{}, OpenTxn: map[TP]map[int64]bool{},
		BufCount: map[*kgo.Record]int{}, UnbufCount: map[*kgo.Record]int{}, UnbufPolled: map[*kgo.Record]bool{}}
	topics := map[string]int32{}
	for i, t := range p.Topics {
		topics[t] = p.Parts[i]
	}
	e.StartCluster(bubble.ClusterOpts{Brokers: p.Brokers, Topics: topics})
	if AfterClusterStart != nil {
		AfterClusterStart(e.Cluster)
	}
	if os.Getenv("VERIF_DEBUG") != "" {
		e.Net.KeepFrames()
		e.Net.SetOnReq(func(ri *bubble.ReqInfo) {
			if ri.Key != 1 || len(ri.Frame) < 14 {
				return
			}
			req := kmsg.NewPtrFetchRequest()
			req.Version = ri.Version
			// request header: size(4) key(2) version(2) corr(4) clientid(nullable string) [tags]
			b := ri.Frame[12:]
			cl := int(int16(binary.BigEndian.Uint16(b)))
			b = b[2:]
			if cl > 0 {
				b = b[cl:]
			}
			if req.IsFlexible() {
				b = b[1:]
			}
			if req.ReadFrom(b) != nil {
				return
			}
			var parts, forgot []string
			for _, t := range req.Topics {
				for _, p := range t.Partitions {
					parts = append(parts, fmt.Sprintf("%x/%d@%d", t.TopicID[:1], p.Partition, p.FetchOffset))
				}
			}
			for _, t := range req.ForgottenTopics {
				forgot = append(forgot, fmt.Sprintf("%x/%v", t.TopicID[:1], t.Partitions))
			}
			e.Log.Add("FETCH-req", int64(req.SessionID), fmt.Sprintf("conn=%d epoch=%d parts=%v forgot=%v", ri.Conn, req.SessionEpoch, parts, forgot), nil, 0, 0)
		})
		e.Net.SetOnResp(func(ri *bubble.ReqInfo, body []byte) {
			if ri.Key != 1 {
				return
			}
			resp := kmsg.NewPtrFetchResponse()
			resp.Version = ri.Version
			hdr := 4
			if resp.IsFlexible() {
				hdr = 5
			}
			if len(body) < hdr || resp.ReadFrom(body[hdr:]) != nil {
				return
			}
			for _, t := range resp.Topics {
				for _, p := range t.Partitions {
					first, last := int64(-1), int64(-1)
					data := p.RecordBatches
					for len(data) >= 61 {
						var b kmsg.RecordBatch
						if b.ReadFrom(data) != nil || int(b.Length)+12 > len(data) {
							break
						}
						if first < 0 {
							first = b.FirstOffset
						}
						last = b.FirstOffset + int64(b.LastOffsetDelta)
						data = data[int(b.Length)+12:]
					}
					e.Log.Add("FETCH-resp", int64(p.Partition), fmt.Sprintf("conn=%d %x err=%d hwm=%d lso=%d aborted=%v batches=[%d..%d]", ri.Conn, t.TopicID[:2], p.ErrorCode, p.HighWatermark, p.LastStableOffset, p.AbortedTransactions, first, last), nil, 0, 0)
				}
			}
		})
	}
	plain := e.NewClient(kgo.ClientID("verif-plain-producer"), kgo.RecordPartitioner(kgo.ManualPartitioner()), kgo.ProducerLinger(0))
	var nextID, nextTxn int64
	ctxTO := func(d time.Duration) (context.Context, context.CancelFunc) {
		return context.WithTimeout(context.Background(), d)
	}
	appendPlain := func(topic string, part int32, n int) {
		var recs []*kgo.Record
		for i := 0; i < n; i++ {
			nextID++
			recs = append(recs, &kgo.Record{Topic: topic, Partition: part, Value: val(nextID, 0, 16+int(nextID%3)*40)})
		}
		ctx, cancel := ctxTO(5 * time.Minute)
		err := plain.ProduceSync(ctx, recs...).FirstErr()
		cancel()
		o.Log.Add("append", int64(n), fmt.Sprintf("%s/%d", topic, part), err, 0, 0)
	}
	for ti, t := range p.Topics {
		for pi := int32(0); pi < p.Parts[ti]; pi++ {
			if n := p.Prefill[ti][pi]; n > 0 {
				appendPlain(t, pi, n)
			}
		}
	}
	txs := make([]*txnProd, p.NTxn)
	newTxn := func(i int) *txnProd {
		cl := e.NewClient(kgo.ClientID(fmt.Sprintf("verif-txn-%d", i)), kgo.TransactionalID(fmt.Sprintf("tx-%d", i)), kgo.TransactionTimeout(p.TxnTO), kgo.RecordPartitioner(kgo.ManualPartitioner()), kgo.ProducerLinger(0))
		return &txnProd{cl: cl}
	}
	for i := range txs {
		txs[i] = newTxn(i)
	}

	// consumer under test
	var copts []kgo.Opt
	if p.Cfg.ByTopic {
		copts = append(copts, kgo.ConsumeTopics(p.Topics...), kgo.ConsumeResetOffset(kgo.NewOffset().AtStart()))
	} else {
		parts := map[string]map[int32]kgo.Offset{}
		for ti, t := range p.Topics {
			parts[t] = map[int32]kgo.Offset{}
			for pi := int32(0); pi < p.Parts[ti]; pi++ {
				parts[t][pi] = kgo.NewOffset().At(p.Start[ti][pi])
			}
		}
		copts = append(copts, kgo.ConsumePartitions(parts))
	}
	if p.Cfg.ReadCommitted {
		copts = append(copts, kgo.FetchIsolationLevel(kgo.ReadCommitted()))
	}
	if p.Cfg.KeepControl {
		copts = append(copts, kgo.KeepControlRecords())
	}
	copts = append(copts, kgo.FetchMaxWait(p.Cfg.MaxWait))
	if p.Cfg.MaxBytes > 0 {
		copts = append(copts, kgo.FetchMaxBytes(p.Cfg.MaxBytes))
	}
	if p.Cfg.MaxPartBytes > 0 {
		copts = append(copts, kgo.FetchMaxPartitionBytes(p.Cfg.MaxPartBytes))
	}
	if p.Cfg.Concurrent > 0 {
		copts = append(copts, kgo.MaxConcurrentFetches(p.Cfg.Concurrent))
	}
	if p.Cfg.NoSessions {
		copts = append(copts, kgo.DisableFetchSessions())
	}
	if p.Cfg.KeepRetryable {
		copts = append(copts, kgo.KeepRetryableFetchErrors())
	}
	copts = append(copts, kgo.WithHooks(consHooks{o}), kgo.ClientID("verif-consumer"))
	copts = append(copts, extra...)
	cl := e.NewClient(copts...)
	o.Client = cl

	lastOff := map[TP]int64{}
	record := func(fs kgo.Fetches, pollN int) {
		o.polls++
		fs.EachError(func(t string, pt int32, err error) {
			o.PollErrs = append(o.PollErrs, fmt.Sprintf("%s/%d: %v", t, pt, err))
		})
		fs.EachRecord(func(r *kgo.Record) {
			tp := TP{r.Topic, r.Partition}
			ret := Returned{TP: tp, Offset: r.Offset, Control: r.Attrs.IsControl(), PollN: pollN, Poll: o.polls}
			if !ret.Control && len(r.Value) >= 16 {
				ret.ID = int64(binary.BigEndian.Uint64(r.Value))
				ret.TxnID = int64(binary.BigEndian.Uint64(r.Value[8:]))
			}
			if last, ok := lastOff[tp]; ok && r.Offset <= last && o.OrderViolation == "" {
				o.OrderViolation = fmt.Sprintf("%s: offset %d returned after offset %d (poll #%d)", tp, r.Offset, last, o.polls)
			}
			lastOff[tp] = r.Offset
			o.Returned = append(o.Returned, ret)
			o.ByTP[tp] = append(o.ByTP[tp], ret)
		})
	}
	poll := func(max int, to time.Duration) {
		var ctx context.Context
		var cancel context.CancelFunc = func() {}
		if to > 0 {
			ctx, cancel = ctxTO(to)
		} else {
			// nil context: return what is buffered right now
		}
		o.Log.Add("poll-start", int64(max), "", nil, int64(to), 0)
		buffered := cl.BufferedFetchRecords()
		var fs kgo.Fetches
		if max > 0 {
			fs = cl.PollRecords(ctx, max)
		} else {
			fs = cl.PollFetches(ctx)
		}
		cancel()
		n := o.Log.Add("poll-end", int64(fs.NumRecords()), "", nil, 0, 0)
		if max > 0 && int64(fs.NumRecords()) < buffered {
			o.PartialTake = true
		}
		record(fs, n)
	}

	for _, s := range p.Steps {
		if spin, _ := e.Net.Spinning(); spin {
			return o
		}
		if s.Delay > 0 {
			time.Sleep(s.Delay)
		}
		o.StepKinds = append(o.StepKinds, s.Kind)
		topic := p.Topics[s.Topic]
		switch s.Kind {
		case "netfault", "errcode", "move", "killall", "pause":
			if cl.BufferedFetchRecords() > 0 {
				o.FaultWhileBuffered = true
				if s.Kind == "pause" {
					o.PauseStrip = true
				}
			}
		}
		switch s.Kind {
		case "append":
			appendPlain(topic, s.Partition, s.N)
		case "txappend":
			tx := txs[s.Txn]
			if tx.broken {
				tx = newTxn(s.Txn)
				txs[s.Txn] = tx
			}
			if !tx.open {
				if err := tx.cl.BeginTransaction(); err != nil {
					o.Log.Add("txbegin", int64(s.Txn), "", err, 0, 0)
					tx.broken = true
					break
				}
				nextTxn++
				tx.cur = &TxnTruth{ID: nextTxn, Producer: s.Txn, CommitStart: -1, Outcome: "open"}
				o.Txns[nextTxn] = tx.cur
				tx.open = true
			}
			var recs []*kgo.Record
			for i := 0; i < s.N; i++ {
				nextID++
				recs = append(recs, &kgo.Record{Topic: topic, Partition: s.Partition, Value: val(nextID, tx.cur.ID, 16)})
			}
			ctx, cancel := ctxTO(5 * time.Minute)
			err := tx.cl.ProduceSync(ctx, recs...).FirstErr()
			cancel()
			o.Log.Add("txappend", tx.cur.ID, fmt.Sprintf("%s/%d", topic, s.Partition), err, int64(s.N), 0)
			if err != nil {
				tx.cur.Outcome = "unknown"
			}
		case "txend":
			tx := txs[s.Txn]
			if tx.broken || !tx.open {
				break
			}
			endTxn(o, tx, s.Commit)
		case "poll":
			poll(s.MaxRecs, s.PollTO)
		case "pause":
			if s.WholeTopic {
				cl.PauseFetchTopics(topic)
			} else {
				cl.PauseFetchPartitions(map[string][]int32{topic: {s.Partition}})
			}
			o.Log.Add("pause", int64(s.Partition), topic, nil, 0, 0)
		case "resume":
			if s.WholeTopic {
				cl.ResumeFetchTopics(topic)
			} else {
				cl.ResumeFetchPartitions(map[string][]int32{topic: {s.Partition}})
			}
			o.Log.Add("resume", int64(s.Partition), topic, nil, 0, 0)
		case "netfault":
			o.Log.Add("netfault", int64(s.Key), s.Act.String(), nil, int64(s.Dur), 0)
			e.Net.AddRuleNext(s.Key, s.Act, s.Dur)
		case "killall":
			o.Log.Add("killall", 0, "", nil, 0, 0)
			e.Net.KillAll()
		case "errcode":
			code, top := s.Code, s.Top
			if top {
				o.SessionErr = true
			}
			o.Log.Add("errcode", int64(code), "", nil, 0, 0)
			e.Cluster.ControlKey(1, func(kreq kmsg.Request) (kmsg.Response, error, bool) {
				req := kreq.(*kmsg.FetchRequest)
				if req.ReplicaID != -1 || len(req.Topics) == 0 || req.MaxWaitMillis == 0 { // MaxWait 0 = the harness's raw reader
					return nil, nil, false
				}
				return fetchErrResp(req, code, top), nil, true
			})
		case "move":
			err := e.Cluster.MoveTopicPartition(topic, s.Partition, int32(s.Node))
			o.Log.Add("move", int64(s.Node), topic, err, int64(s.Partition), 0)
			if err == nil {
				o.Moves++
			}
		case "sleep":
			time.Sleep(s.Dur)
		}
	}

	// ---------- final: heal, end transactions, resume, drain ----------
	e.Net.ClearRules()
	for i, tx := range txs {
		if tx.broken || !tx.open {
			continue
		}
		if p.LeaveOpen && i == len(txs)-1 {
			continue // stays open: read_committed must stop in front of it
		}
		endTxn(o, tx, i%2 == 0)
	}
	for ti, t := range p.Topics {
		cl.ResumeFetchTopics(t)
		var ps []int32
		for pi := int32(0); pi < p.Parts[ti]; pi++ {
			ps = append(ps, pi)
		}
		cl.ResumeFetchPartitions(map[string][]int32{t: ps})
	}
	if spin, _ := e.Net.Spinning(); spin {
		return o
	}
	if p.CloseEarly {
		// a last fetch is very likely buffered or in flight now
		time.Sleep(p.Cfg.MaxWait + 10*time.Millisecond)
		e.Settle()
		o.QuiescentBuffered = append(o.QuiescentBuffered, cl.BufferedFetchRecords())
		cdone := make(chan struct{})
		go func() { cl.Close(); close(cdone) }()
		bubble.WaitTimeout(cdone, Bound)
		fs := cl.PollFetches(context.Background())
		o.PollsAfterCloseClosed = fs.IsClientClosed()
		time.Sleep(time.Minute)
		e.Settle()
		o.FinalBufferedRecs, o.FinalBufferedBytes = cl.BufferedFetchRecords(), cl.BufferedFetchBytes()
		o.ClosedEarly = true
		return o
	}
	// Transactions left open are aborted by the broker once their timeout passes; let that
	// happen before the ground truth is taken, and re-take it until the log is stable.
	if p.NTxn > 0 {
		time.Sleep(2*p.TxnTO + time.Second)
	}
	raw := e.RawClient()
	for round := 0; round < 4; round++ {
		expectLast := map[TP]int64{}
		hwmSum := int64(0)
		for ti, t := range p.Topics {
			for pi := int32(0); pi < p.Parts[ti]; pi++ {
				tp := TP{t, pi}
				recs, hwm, err := e.ReadLog(raw, t, pi, 0)
				if err != nil {
					if spin, _ := e.Net.Spinning(); spin {
						return o
					}
					panic(fmt.Sprintf("VERIF-INFRA: raw log read %s: %v", tp, err))
				}
				o.Truth[tp], o.HWM[tp] = recs, hwm
				hwmSum += hwm
				o.Aborted[tp], o.OpenTxn[tp] = classifyTxn(recs)
				start := int64(0)
				if !p.Cfg.ByTopic {
					start = p.Start[ti][pi]
				}
				exp := o.Expected(tp, start)
				if len(exp) > 0 {
					expectLast[tp] = exp[len(exp)-1]
				}
			}
		}
		// drain until every partition reached its expected last offset, or the bound passes
		o.Drained = false
		deadline := time.Now().Add(Bound)
		for time.Now().Before(deadline) {
			if spin, _ := e.Net.Spinning(); spin {
				return o
			}
			done := true
			for tp, want := range expectLast {
				if got, ok := lastOff[tp]; !ok || got < want {
					done = false
				}
			}
			if done {
				o.Drained = true
				break
			}
			poll(0, 2*time.Second)
		}
		// a few more polls: nothing beyond the expected set may appear
		for i := 0; i < 3; i++ {
			poll(0, time.Second)
		}
		// the log must not have grown since the ground truth was taken
		var after int64
		for ti, t := range p.Topics {
			for pi := int32(0); pi < p.Parts[ti]; pi++ {
				_, hwm, err := e.ReadLog(raw, t, pi, 0)
				if err != nil {
					if spin, _ := e.Net.Spinning(); spin {
						return o
					}
					panic(fmt.Sprintf("VERIF-INFRA: raw log read: %v", err))
				}
				after += hwm
			}
		}
		if after == hwmSum {
			o.TruthStable = true
			break
		}
	}
	e.Settle()
	o.QuiescentBuffered = append(o.QuiescentBuffered, cl.BufferedFetchRecords())
	cdone := make(chan struct{})
	go func() { cl.Close(); close(cdone) }()
	bubble.WaitTimeout(cdone, Bound)
	fs := cl.PollFetches(context.Background())
	o.PollsAfterCloseClosed = fs.IsClientClosed()
	time.Sleep(time.Minute)
	e.Settle()
	o.FinalBufferedRecs, o.FinalBufferedBytes = cl.BufferedFetchRecords(), cl.BufferedFetchBytes()
	return o
}

func endTxn(o *ConsObs, tx *txnProd, commit bool) {
	try := kgo.TryAbort
	if commit {
		try = kgo.TryCommit
	}
	ctx, cancel := context.WithTimeout(context.Background(), 5*time.Minute)
	defer cancel()
	if err := tx.cl.Flush(ctx); err != nil {
		tx.cur.Outcome = "unknown"
	}
	n := o.Log.Add("txend-start", tx.cur.ID, fmt.Sprint(commit), nil, 0, 0)
	if commit {
		tx.cur.CommitStart = n
	}
	err := tx.cl.EndTransaction(ctx, try)
	o.Log.Add("txend", tx.cur.ID, fmt.Sprint(commit), err, 0, 0)
	tx.open = false
	switch {
	case err != nil:
		if tx.cur.Outcome != "unknown" {
			tx.cur.Outcome = "unknown"
		}
		tx.broken = true
	case tx.cur.Outcome == "unknown":
	case commit:
		tx.cur.Outcome = "commit"
	default:
		tx.cur.Outcome = "abort"
	}
}

// ClassifyTxn is the exported form of classifyTxn.
func ClassifyTxn(recs []bubble.LogRec) (aborted, open map[int64]bool) { return classifyTxn(recs) }

// classifyTxn derives, from the raw log only, which transactional data offsets belong to
// aborted transactions and which to transactions still open at the end of the log.
func classifyTxn(recs []bubble.LogRec) (aborted, open map[int64]bool) {
	aborted, open = map[int64]bool{}, map[int64]bool{}
	pending := map[int64][]int64{} // pid -> data offsets of the open transaction
	for _, r := range recs {
		switch {
		case r.Control:
			// control record key: int16 version, int16 type (0 abort, 1 commit)
			if len(r.Key) >= 4 {
				typ := int16(binary.BigEndian.Uint16(r.Key[2:]))
				if typ == 0 {
					for _, o := range pending[r.PID] {
						aborted[o] = true
					}
				}
				delete(pending, r.PID)
			}
		case r.Txn:
			pending[r.PID] = append(pending[r.PID], r.Offset)
		}
	}
	for _, offs := range pending {
		for _, o := range offs {
			open[o] = true
		}
	}
	return
}

// Expected is the list of offsets the consumer must return for tp starting at start,
// computed from the raw log only.
func (o *ConsObs) Expected(tp TP, start int64) []int64 {
	recs := o.Truth[tp]
	rc := o.Plan.Cfg.ReadCommitted
	firstOpen := int64(-1)
	if rc {
		for _, r := range recs {
			if o.OpenTxn[tp][r.Offset] && (firstOpen < 0 || r.Offset < firstOpen) {
				firstOpen = r.Offset
			}
		}
	}
	var out []int64
	for _, r := range recs {
		if r.Offset < start {
			continue
		}
		if rc && firstOpen >= 0 && r.Offset >= firstOpen {
			break // last stable offset
		}
		if r.Control {
			if o.Plan.Cfg.KeepControl {
				out = append(out, r.Offset)
			}
			continue
		}
		if rc && o.Aborted[tp][r.Offset] {
			continue
		}
		out = append(out, r.Offset)
	}
	return out
}

// LogSummary renders the raw log of tp: offset:kind where kind is d (plain data),
// t<pid>.<epoch> (transactional data, ! = aborted, ? = open), C<pid>.<epoch>=commit/abort.
func (o *ConsObs) LogSummary(tp TP) string {
	var b strings.Builder
	for _, r := range o.Truth[tp] {
		switch {
		case r.Control:
			typ := "?"
			if len(r.Key) >= 4 {
				typ = map[uint16]string{0: "abort", 1: "commit"}[binary.BigEndian.Uint16(r.Key[2:])]
			}
			fmt.Fprintf(&b, " %d:C%d.%d=%s", r.Offset, r.PID, r.Epoch, typ)
		case r.Txn:
			m := ""
			if o.Aborted[tp][r.Offset] {
				m = "!"
			} else if o.OpenTxn[tp][r.Offset] {
				m = "?"
			}
			fmt.Fprintf(&b, " %d:t%d.%d%s", r.Offset, r.PID, r.Epoch, m)
		default:
			fmt.Fprintf(&b, " %d:d", r.Offset)
		}
	}
	fmt.Fprintf(&b, " hwm=%d", o.HWM[tp])
	return b.String()
}

func (o *ConsObs) Digest() string {
	return fmt.Sprintf("%s|%+v|%d|%v", strings.Join(o.StepKinds, ","), o.Plan.Cfg, o.Plan.Brokers, o.Plan.Start)
}

// HookCounts returns (buffered-hook records, records with exactly one unbuffered, mismatches).
func (o *ConsObs) HookMismatches() []string {
	o.hookMu.Lock()
	defer o.hookMu.Unlock()
	var out []string
	for r, b := range o.BufCount {
		u := o.UnbufCount[r]
		if b != 1 || u != 1 {
			out = append(out, fmt.Sprintf("%s/%d@%d: buffered %d times, unbuffered %d times (polled=%v)", r.Topic, r.Partition, r.Offset, b, u, o.UnbufPolled[r]))
		}
	}
	for r, u := range o.UnbufCount {
		if o.BufCount[r] == 0 {
			out = append(out, fmt.Sprintf("%s/%d@%d: unbuffered %d times, never buffered", r.Topic, r.Partition, r.Offset, u))
		}
	}
	sort.Strings(out)
	return out
}

var _ = atomic.Int32{}
