// Package wl holds the generated end-to-end workloads that several property checks share.
package wl

import (
	"context"
	"encoding/binary"
	"errors"
	"fmt"
	"sort"
	"strings"
	"sync"
	"sync/atomic"
	"time"

	"github.com/twmb/franz-go/pkg/kerr"
	"github.com/twmb/franz-go/pkg/kgo"
	"github.com/twmb/franz-go/pkg/kmsg"
	"pgregory.net/rapid"

	"verif/h/bubble"
)

// ---------- plan (drawn entirely on the property goroutine) ----------

type ProdCfg struct {
	Idempotent     bool
	Acks           int // -1 all, 1 leader, 0 none (only when !Idempotent)
	Linger         time.Duration
	Manual         bool
	MaxBufRecs     int // 0 = default
	MaxBufBytes    int // 0 = unlimited
	Retries        int // 0 = default
	DeliveryTO     time.Duration
	UnknownRetries int // -2 = default
	BatchMax       int32
	Inflight       int
	AllowCancel    bool // AllowIdempotentProduceCancellation
	MutatePromise  bool // promises of odd record ids clear Key/Value/Headers of their record
}

type ProdStep struct {
	Delay time.Duration
	Kind  string // produce | flush | abort | purge | netfault | errcode | move | deltopic | mktopic | sleep | cancelctx | killall
	// produce
	Mode      string // produce | try | sync
	N         int
	Topic     int // index into Topics; len(Topics) = the topic that does not exist
	Partition int32
	ValLen    int
	CtxAfter  time.Duration // cancel the record ctx after this long (0 = never)
	// flush
	FlushTO time.Duration // 0 = none
	Quiesce bool          // take a quiescent sample (synctest.Wait) right before starting the flush
	// faults
	Key  int16
	Act  bubble.Action
	Dur  time.Duration
	Code int16
	Node int
}

type ProdPlan struct {
	Brokers    int
	Topics     []string
	Parts      []int32
	AutoCreate bool
	Cfg        ProdCfg
	Steps      []ProdStep
	Final      string // flushclose | close | closeblocked
}

var retriableCodes = []int16{kerr.NotLeaderForPartition.Code, kerr.NotEnoughReplicas.Code, kerr.RequestTimedOut.Code, kerr.NotEnoughReplicasAfterAppend.Code, kerr.LeaderNotAvailable.Code, kerr.UnknownTopicOrPartition.Code}
var fatalCodes = []int16{kerr.MessageTooLarge.Code, kerr.InvalidTopicException.Code, kerr.TopicAuthorizationFailed.Code, kerr.RecordListTooLarge.Code, kerr.CorruptMessage.Code, kerr.InvalidRequiredAcks.Code}

// ProdFocus tunes the generator towards one property's interesting region.
type ProdFocus struct {
	SmallLimits    bool // small MaxBufferedRecords/Bytes (C03)
	NoFaults       bool
	NoPurge        bool // exclude purge/unsafe classes (C02)
	IdemOnly       bool
	DelayFaults    bool // only response delays as faults (C03)
	FatalCodesRare bool
	MaxSteps       int
	// MutateInPromise lets a plan recycle records inside their promise (Key, Value and
	// Headers are cleared, as a pooling application would): buffered-byte accounting
	// must not depend on the record's contents after the promise has run.
	MutateInPromise bool
	// Burst packs blocking producers together: mostly Produce steps started at the same
	// virtual instant (each on its own goroutine), so that many producers are parked on a
	// full buffer and are woken together.
	Burst bool
	// Pipeline fills the produce pipeline of one partition during a one-way stall: one
	// acknowledged record first (the sink has seen its first response), then a stall, then
	// 8-24 single-record Produce calls a millisecond apart (one batch and one request each,
	// no linger), so that as many requests as the client allows are appended by the broker
	// without any of them being answered before every connection dies and all are resent.
	Pipeline bool
}

func GenProdPlan(t *rapid.T, f ProdFocus) ProdPlan {
	p := ProdPlan{}
	p.Brokers = rapid.IntRange(1, 3).Draw(t, "brokers")
	nt := rapid.IntRange(1, 3).Draw(t, "ntopics")
	for i := 0; i < nt; i++ {
		p.Topics = append(p.Topics, fmt.Sprintf("t%d", i))
		p.Parts = append(p.Parts, int32(rapid.IntRange(1, 4).Draw(t, "parts")))
	}
	p.AutoCreate = rapid.Bool().Draw(t, "autocreate")
	c := &p.Cfg
	c.Idempotent = f.IdemOnly || rapid.IntRange(0, 3).Draw(t, "idem") != 0
	if !c.Idempotent {
		c.Acks = rapid.SampledFrom([]int{-1, 1, 0}).Draw(t, "acks")
	}
	c.Linger = rapid.SampledFrom([]time.Duration{0, 5 * time.Millisecond, time.Second}).Draw(t, "linger")
	c.Manual = rapid.IntRange(0, 4).Draw(t, "manual") == 0
	if f.SmallLimits {
		c.MaxBufRecs = rapid.IntRange(1, 8).Draw(t, "maxbufrecs")
		if rapid.Bool().Draw(t, "usebytes") || f.Burst {
			c.MaxBufBytes = rapid.IntRange(16, 200).Draw(t, "maxbufbytes") // burst plans always have both limits
		}
	} else {
		c.MaxBufRecs = rapid.SampledFrom([]int{0, 1, 2, 5, 64}).Draw(t, "maxbufrecs")
		c.MaxBufBytes = rapid.SampledFrom([]int{0, 0, 64, 4096}).Draw(t, "maxbufbytes")
	}
	c.Retries = rapid.SampledFrom([]int{0, 0, 1, 3}).Draw(t, "retries")
	c.DeliveryTO = rapid.SampledFrom([]time.Duration{0, 0, time.Second, 5 * time.Second}).Draw(t, "deliveryto")
	c.UnknownRetries = rapid.SampledFrom([]int{-2, 0, 2}).Draw(t, "unknownretries")
	c.BatchMax = rapid.SampledFrom([]int32{0, 0, 512, 4096}).Draw(t, "batchmax")
	c.Inflight = rapid.SampledFrom([]int{0, 1, 4}).Draw(t, "inflight")
	if c.Idempotent && !f.IdemOnly {
		c.AllowCancel = rapid.IntRange(0, 5).Draw(t, "allowcancel") == 0
	}
	if f.MutateInPromise {
		c.MutatePromise = rapid.Bool().Draw(t, "mutatepromise")
	}
	maxSteps := f.MaxSteps
	if maxSteps == 0 {
		maxSteps = 40
	}
	// C02 realism: a broker that appended a batch never answers a retry of that batch with a
	// fatal validation error, so a plan either injects fatal codes (and then no fault that
	// can leave a batch appended-but-unacknowledged) or ambiguity faults (and no fatal codes).
	fatalPlan := f.FatalCodesRare && rapid.IntRange(0, 4).Draw(t, "fatalplan") == 0
	ns := rapid.IntRange(1, maxSteps).Draw(t, "nsteps")
	kinds := []string{"produce", "produce", "produce", "produce", "flush", "sleep", "cancelctx"}
	if !f.NoFaults {
		kinds = append(kinds, "netfault", "netfault", "errcode", "errcode", "appenderr", "move", "killall", "abort", "stall")
		if !f.NoPurge {
			kinds = append(kinds, "purge", "deltopic", "mktopic")
		}
	} else {
		kinds = append(kinds, "abort")
		if f.DelayFaults {
			kinds = append(kinds, "netdelay", "netdelay")
		}
	}
	delays := []time.Duration{0, 0, 0, time.Millisecond, 10 * time.Millisecond, 50 * time.Millisecond, 300 * time.Millisecond, 3 * time.Second}
	if f.Burst {
		kinds = append(kinds, "produce", "produce", "produce", "produce", "produce", "produce", "produce", "produce")
		delays = []time.Duration{0, 0, 0, 0, 0, 0, time.Millisecond, 50 * time.Millisecond}
	}
	for i := 0; i < ns; i++ {
		s := ProdStep{Delay: rapid.SampledFrom(delays).Draw(t, "delay"), Kind: rapid.SampledFrom(kinds).Draw(t, "kind")}
		switch s.Kind {
		case "produce":
			modes := []string{"produce", "produce", "try", "sync"}
			if f.Burst {
				modes = []string{"produce", "produce", "produce", "sync"}
			}
			s.Mode = rapid.SampledFrom(modes).Draw(t, "mode")
			s.N = rapid.IntRange(1, 6).Draw(t, "n")
			s.Topic = rapid.IntRange(0, nt).Draw(t, "topic") // nt = unknown topic
			if s.Topic == nt && rapid.IntRange(0, 2).Draw(t, "unknownrare") != 0 {
				s.Topic = 0
			}
			np := int32(4)
			if s.Topic < nt {
				np = p.Parts[s.Topic]
			}
			s.Partition = int32(rapid.IntRange(0, int(np)-1).Draw(t, "partition"))
			s.ValLen = rapid.SampledFrom([]int{8, 8, 40, 300}).Draw(t, "vallen")
			s.CtxAfter = rapid.SampledFrom([]time.Duration{0, 0, 0, time.Millisecond, 50 * time.Millisecond, 2 * time.Second}).Draw(t, "ctxafter")
		case "flush":
			s.FlushTO = rapid.SampledFrom([]time.Duration{0, 0, 10 * time.Millisecond, 2 * time.Second}).Draw(t, "flushto")
			s.Quiesce = rapid.Bool().Draw(t, "quiesce")
		case "purge", "deltopic", "mktopic":
			s.Topic = rapid.IntRange(0, nt).Draw(t, "topic")
		case "netfault":
			s.Key = rapid.SampledFrom([]int16{0, 0, 0, 3, 22}).Draw(t, "key")
			s.Act = rapid.SampledFrom([]bubble.Action{bubble.KillBefore, bubble.DropResponse, bubble.DelayResponse, bubble.TruncResponse}).Draw(t, "act")
			s.Dur = rapid.SampledFrom([]time.Duration{50 * time.Millisecond, 2 * time.Second, 40 * time.Second}).Draw(t, "dur")
		case "netdelay":
			s.Kind = "netfault"
			s.Key = 0
			s.Act = bubble.DelayResponse
			s.Dur = rapid.SampledFrom([]time.Duration{time.Millisecond, 50 * time.Millisecond, 2 * time.Second}).Draw(t, "dur")
		case "errcode":
			isFatal := rapid.IntRange(0, 3).Draw(t, "fatal") == 0
			if f.FatalCodesRare {
				isFatal = isFatal && fatalPlan
			}
			if isFatal {
				s.Code = rapid.SampledFrom(fatalCodes).Draw(t, "code")
			} else {
				s.Code = rapid.SampledFrom(retriableCodes).Draw(t, "code")
			}
		case "appenderr":
			s.Code = rapid.SampledFrom([]int16{kerr.RequestTimedOut.Code, kerr.NotEnoughReplicasAfterAppend.Code}).Draw(t, "code")
		case "move":
			s.Topic = rapid.IntRange(0, nt-1).Draw(t, "topic")
			s.Partition = int32(rapid.IntRange(0, int(p.Parts[s.Topic])-1).Draw(t, "partition"))
			s.Node = rapid.IntRange(0, p.Brokers-1).Draw(t, "node")
		case "sleep":
			s.Dur = rapid.SampledFrom([]time.Duration{time.Second, 10 * time.Second, 2 * time.Minute}).Draw(t, "dur")
		case "stall":
			s.Dur = rapid.SampledFrom([]time.Duration{5 * time.Millisecond, 50 * time.Millisecond, 2 * time.Second}).Draw(t, "dur")
		}
		if fatalPlan {
			switch {
			case s.Kind == "netfault" && s.Act != bubble.KillBefore:
				s.Act = bubble.KillBefore
			case s.Kind == "killall" || s.Kind == "appenderr" || s.Kind == "stall":
				s.Kind = "sleep"
				s.Dur = time.Second
			}
		}
		p.Steps = append(p.Steps, s)
	}
	p.Final = rapid.SampledFrom([]string{"flushclose", "flushclose", "close", "closeblocked"}).Draw(t, "final")
	if f.Pipeline {
		c.Linger, c.Manual, c.MaxBufRecs, c.MaxBufBytes, c.BatchMax, c.AllowCancel = 0, false, 0, 0, 0, false
		c.Retries, c.DeliveryTO = 0, 0
		c.Inflight = rapid.SampledFrom([]int{0, 0, 1, 4}).Draw(t, "pipe-inflight")
		part := int32(rapid.IntRange(0, int(p.Parts[0])-1).Draw(t, "pipe-partition"))
		one := func(d time.Duration, mode string) ProdStep {
			return ProdStep{Kind: "produce", Mode: mode, N: 1, Topic: 0, Partition: part, ValLen: 8, Delay: d}
		}
		var steps []ProdStep
		k := rapid.IntRange(8, 24).Draw(t, "pipe-n")
		if rapid.Bool().Draw(t, "pipe-fromstart") {
			// from the very first request: every response is slow, so the batches queue up behind
			// the first request and go out together the moment it is answered; the connections
			// die before any of those is answered
			c.BatchMax = 512
			steps = append(steps, ProdStep{Kind: "slowkill", Dur: rapid.SampledFrom([]time.Duration{20 * time.Millisecond, 200 * time.Millisecond}).Draw(t, "pipe-slow")})
			for i := 0; i < k; i++ {
				st := one(rapid.SampledFrom([]time.Duration{0, time.Millisecond}).Draw(t, "pipe-gap"), "produce")
				st.ValLen = 300 // two of these exceed the batch limit: one batch per record
				steps = append(steps, st)
			}
			steps = append(steps, ProdStep{Kind: "sleep", Dur: time.Second}) // the final phase heals the network: let the fault play out first
		} else {
			steps = append(steps, one(0, "sync"))
			steps = append(steps, ProdStep{Kind: "stall", Dur: rapid.SampledFrom([]time.Duration{50 * time.Millisecond, 2 * time.Second}).Draw(t, "pipe-stall"), Delay: rapid.SampledFrom([]time.Duration{0, 100 * time.Millisecond}).Draw(t, "pipe-stalldelay")})
			for i := 0; i < k; i++ {
				steps = append(steps, one(time.Millisecond, "produce"))
			}
		}
		keep := rapid.IntRange(0, 6).Draw(t, "pipe-extra")
		if keep > len(p.Steps) {
			keep = len(p.Steps)
		}
		if fatalPlan {
			keep = 0 // a plan with fatal codes must not contain a fault that leaves batches appended but unacknowledged
		}
		p.Steps = append(steps, p.Steps[:keep]...)
		p.Final = "flushclose"
	}
	return p
}

// ---------- execution ----------

// RecState is everything observed about one record handed to the client.
type RecState struct {
	ID              int64
	Topic           string
	Partition       int32
	Mode            string
	Rec             *kgo.Record
	Step            int
	CallStart       int   // log index when the produce call started
	CallEnd         int   // log index when the produce call returned (-1 if it never did)
	Promises        int32 // number of promise invocations
	PromiseN        int   // log index of the first promise
	PromiseErr      error
	PromOffset      int64
	PromPart        int32
	WrongRec        bool  // promise was invoked with a different *Record
	Buffered        int32 // OnProduceRecordBuffered count
	Unbuffered      int32
	UnbufErr        error
	UnbufN          int
	TryErrNow       bool // TryProduce failed with ErrMaxBuffered without any virtual time passing
	BytesLen        int
	CtxCancel       bool // its context was (scheduled to be) cancelled
	InFlightAtFault bool
}

// QSample is taken after synctest.Wait(): nothing in the bubble is running.
type QSample struct {
	LogN           int
	Gauge, Bytes   int64
	PendingFlushes int
	PendingCalls   int64
}

type FlushObs struct {
	Start, End int // log indices
	Err        error
	Returned   bool
	StartAt    time.Duration
	EndAt      time.Duration
}

// ProdObs is the complete observation of one executed plan.
type ProdObs struct {
	Plan                         ProdPlan
	Recs                         []*RecState
	byPtr                        sync.Map // *kgo.Record -> *RecState
	Flushes                      []*FlushObs
	Aborts                       []*FlushObs
	Log                          *bubble.History
	Net                          *bubble.Net
	Env                          *bubble.Env
	DoublePromise                atomic.Int32
	UnknownPromise               atomic.Int32
	MaxAccepted                  atomic.Int64 // max of (buffered-hook count - promises) sampled in hooks
	MaxAcceptedBytes             atomic.Int64
	accepted                     atomic.Int64
	acceptedBytes                atomic.Int64
	BufSamples                   []int64 // BufferedProduceRecords sampled after every step
	LimitHit                     bool
	FailurePaths                 map[string]int
	InflightAtFailure            bool
	FinalBufferedRecs            int64
	FinalBufferedBytes           int64
	CloseReturned                bool
	CloseTook                    time.Duration
	PromisesAfterClose           int
	AllPromisedAtQuiescence      bool
	FinalFlushErr                error
	FinalFlushReturned           bool
	KgoGoroutinesAfterClose      []string
	mu                           sync.Mutex
	ClientClosed                 atomic.Bool
	BlockedProduceReturnedInTime bool
	StepKinds                    []string
	Quiescents                   []QSample
	GaugeViolations              []string
	started, finished            atomic.Int64
	CallDur                      map[int64]time.Duration // produce/try call virtual duration per record id
	Client                       *kgo.Client
	QuiescentChecked             bool
	cancels                      []context.CancelFunc
}

type prodHooks struct{ o *ProdObs }

func (h prodHooks) OnProduceRecordBuffered(r *kgo.Record) {
	if v, ok := h.o.byPtr.Load(r); ok {
		rs := v.(*RecState)
		atomic.AddInt32(&rs.Buffered, 1)
	} else {
		h.o.UnknownPromise.Add(1)
	}
	n := h.o.accepted.Add(1)
	for {
		m := h.o.MaxAccepted.Load()
		if n <= m || h.o.MaxAccepted.CompareAndSwap(m, n) {
			break
		}
	}
	h.o.Log.Add("hook-buffered", recID(r), "", nil, 0, 0)
}

func (h prodHooks) OnProduceRecordUnbuffered(r *kgo.Record, err error) {
	n := h.o.Log.Add("hook-unbuffered", recID(r), "", err, 0, 0)
	if v, ok := h.o.byPtr.Load(r); ok {
		rs := v.(*RecState)
		if atomic.AddInt32(&rs.Unbuffered, 1) == 1 {
			h.o.mu.Lock()
			rs.UnbufErr = err
			rs.UnbufN = n
			h.o.mu.Unlock()
		}
	}
	h.o.accepted.Add(-1)
}

func recID(r *kgo.Record) int64 {
	if len(r.Value) >= 8 {
		return int64(binary.BigEndian.Uint64(r.Value))
	}
	return -1
}

func (c ProdCfg) Opts() []kgo.Opt {
	o := []kgo.Opt{kgo.RecordPartitioner(kgo.ManualPartitioner()), kgo.ProducerLinger(c.Linger)}
	if !c.Idempotent {
		o = append(o, kgo.DisableIdempotentWrite())
		switch c.Acks {
		case 1:
			o = append(o, kgo.RequiredAcks(kgo.LeaderAck()))
		case 0:
			o = append(o, kgo.RequiredAcks(kgo.NoAck()))
		}
	}
	if c.Manual {
		o = append(o, kgo.ManualFlushing())
	}
	if c.MaxBufRecs > 0 {
		o = append(o, kgo.MaxBufferedRecords(c.MaxBufRecs))
	}
	if c.MaxBufBytes > 0 {
		o = append(o, kgo.MaxBufferedBytes(c.MaxBufBytes))
	}
	if c.Retries > 0 {
		o = append(o, kgo.RecordRetries(c.Retries))
	}
	if c.DeliveryTO > 0 {
		o = append(o, kgo.RecordDeliveryTimeout(c.DeliveryTO))
	}
	if c.UnknownRetries != -2 {
		o = append(o, kgo.UnknownTopicRetries(c.UnknownRetries))
	}
	if c.BatchMax > 0 {
		o = append(o, kgo.ProducerBatchMaxBytes(c.BatchMax))
	}
	if c.Inflight > 0 && !c.Idempotent {
		o = append(o, kgo.MaxProduceRequestsInflightPerBroker(c.Inflight))
	}
	if c.AllowCancel {
		o = append(o, kgo.AllowIdempotentProduceCancellation())
	}
	return o
}

// ProduceErrResp is the exported form of produceErrResp.
func ProduceErrResp(req *kmsg.ProduceRequest, code int16) kmsg.Response {
	return produceErrResp(req, code)
}

func produceErrResp(req *kmsg.ProduceRequest, code int16) kmsg.Response {
	resp := req.ResponseKind().(*kmsg.ProduceResponse)
	for _, t := range req.Topics {
		rt := kmsg.NewProduceResponseTopic()
		rt.Topic = t.Topic
		rt.TopicID = t.TopicID
		for _, p := range t.Partitions {
			rp := kmsg.NewProduceResponseTopicPartition()
			rp.Partition = p.Partition
			rp.ErrorCode = code
			rp.BaseOffset = -1
			rt.Partitions = append(rt.Partitions, rp)
		}
		resp.Topics = append(resp.Topics, rt)
	}
	return resp
}

// RewriteProduceErr turns a produce response (correlation id onwards) into one that
// reports code for every partition although the broker appended the batches.
func RewriteProduceErr(version int16, body []byte, code int16) []byte {
	resp := kmsg.NewPtrProduceResponse()
	resp.Version = version
	hdr := 4
	if resp.IsFlexible() {
		hdr = 5
		if len(body) < 5 || body[4] != 0 {
			return nil
		}
	}
	if len(body) < hdr || resp.ReadFrom(body[hdr:]) != nil {
		return nil
	}
	for i := range resp.Topics {
		for j := range resp.Topics[i].Partitions {
			if resp.Topics[i].Partitions[j].ErrorCode == 0 {
				resp.Topics[i].Partitions[j].ErrorCode = code
				resp.Topics[i].Partitions[j].BaseOffset = -1
			}
		}
	}
	return resp.AppendTo(append([]byte(nil), body[:hdr]...))
}

const unknownTopic = "nope"

// Bound is the virtual-time bound used only to report hangs.
const Bound = 15 * time.Minute

// RunProd executes the plan inside e and returns what was observed. It never asserts.
func RunProd(e *bubble.Env, p ProdPlan, extraOpts ...kgo.Opt) *ProdObs {
	o := &ProdObs{Plan: p, Log: e.Log, Net: e.Net, Env: e, FailurePaths: map[string]int{}, CallDur: map[int64]time.Duration{}}
	topics := map[string]int32{}
	for i, t := range p.Topics {
		topics[t] = p.Parts[i]
	}
	e.StartCluster(bubble.ClusterOpts{Brokers: p.Brokers, Topics: topics, AutoCreate: p.AutoCreate})
	admin := e.NewClient(kgo.ClientID("verif-admin"))
	opts := append(p.Cfg.Opts(), kgo.WithHooks(prodHooks{o}))
	opts = append(opts, extraOpts...)
	cl := e.NewClient(opts...)
	o.Client = cl
	var nextID int64
	topicName := func(i int) string {
		if i >= len(p.Topics) {
			return unknownTopic
		}
		return p.Topics[i]
	}
	var inflightProduce atomic.Int32 // produce requests on the wire without a response yet (approximation from the net)
	e.Net.SetOnReq(func(ri *bubble.ReqInfo) {
		if ri.Key == 0 {
			inflightProduce.Add(1)
		}
	})
	promise := func(rs *RecState) func(*kgo.Record, error) {
		return func(r *kgo.Record, err error) {
			n := o.Log.Add("promise", rs.ID, "", err, r.Offset, int64(r.Partition))
			o.sampleGauge(cl, "promise")
			if c := atomic.AddInt32(&rs.Promises, 1); c == 1 {
				o.mu.Lock()
				rs.PromiseN = n
				rs.PromiseErr = err
				rs.PromOffset = r.Offset
				rs.PromPart = r.Partition
				if r != rs.Rec {
					rs.WrongRec = true
				}
				o.mu.Unlock()
			} else {
				o.DoublePromise.Add(1)
			}
			if p.Cfg.MutatePromise && rs.ID%2 == 1 {
				r.Key, r.Value, r.Headers = nil, nil, nil
			}
		}
	}
	var blockedWG sync.WaitGroup
	for si, s := range p.Steps {
		if s.Delay > 0 {
			time.Sleep(s.Delay)
		}
		o.StepKinds = append(o.StepKinds, s.Kind)
		switch s.Kind {
		case "abort", "purge", "netfault", "killall", "errcode", "appenderr", "move", "deltopic", "cancelctx", "stall", "slowkill":
			if cl.BufferedProduceRecords() > 0 {
				o.InflightAtFailure = true
			}
		}
		switch s.Kind {
		case "produce":
			ctx := context.Background()
			if s.CtxAfter > 0 {
				var cancel context.CancelFunc
				ctx, cancel = context.WithTimeout(ctx, s.CtxAfter)
				o.mu.Lock()
				o.cancels = append(o.cancels, cancel)
				o.mu.Unlock()
			}
			var batch []*RecState
			for i := 0; i < s.N; i++ {
				nextID++
				val := make([]byte, s.ValLen)
				binary.BigEndian.PutUint64(val, uint64(nextID))
				r := &kgo.Record{Topic: topicName(s.Topic), Partition: s.Partition, Value: val}
				rs := &RecState{ID: nextID, Topic: r.Topic, Partition: s.Partition, Mode: s.Mode, Rec: r, Step: si, CallEnd: -1, PromiseN: -1, BytesLen: len(val), CtxCancel: s.CtxAfter > 0}
				o.mu.Lock()
				o.Recs = append(o.Recs, rs)
				o.mu.Unlock()
				o.byPtr.Store(r, rs)
				batch = append(batch, rs)
			}
			switch s.Mode {
			case "try":
				for _, rs := range batch {
					rs.CallStart = o.Log.Add("try-start", rs.ID, "", nil, 0, 0)
					t0 := time.Now()
					o.started.Add(1)
					cl.TryProduce(ctx, rs.Rec, promise(rs))
					o.finished.Add(1)
					rs.CallEnd = o.Log.Add("try-end", rs.ID, "", nil, int64(time.Since(t0)), 0)
					o.mu.Lock()
					o.CallDur[rs.ID] = time.Since(t0)
					o.mu.Unlock()
					if time.Since(t0) != 0 {
						o.mu.Lock()
						o.FailurePaths["try-took-time"]++
						o.mu.Unlock()
					}
				}
			case "sync":
				blockedWG.Add(1)
				e.Go(func() {
					defer blockedWG.Done()
					rs0 := batch[0]
					recs := make([]*kgo.Record, len(batch))
					for i, rs := range batch {
						recs[i] = rs.Rec
						rs.CallStart = o.Log.Add("sync-start", rs.ID, "", nil, 0, 0)
					}
					o.started.Add(int64(len(recs)))
					res := cl.ProduceSync(ctx, recs...)
					o.finished.Add(int64(len(recs)))
					end := o.Log.Add("sync-end", rs0.ID, "", res.FirstErr(), 0, 0)
					o.mu.Lock()
					for _, rs := range batch {
						rs.CallEnd = end
					}
					// ProduceSync's results are its promise deliveries (in completion order)
					for _, r := range res {
						v, ok := o.byPtr.Load(r.Record)
						if !ok {
							o.UnknownPromise.Add(1)
							continue
						}
						rs := v.(*RecState)
						if atomic.AddInt32(&rs.Promises, 1) == 1 {
							rs.PromiseN = end
							rs.PromiseErr = r.Err
							rs.PromOffset = r.Record.Offset
							rs.PromPart = r.Record.Partition
						} else {
							o.DoublePromise.Add(1)
						}
					}
					if len(res) != len(batch) {
						o.FailurePaths["sync-result-count-mismatch"]++
					}
					o.mu.Unlock()
				})
			default:
				blockedWG.Add(1)
				e.Go(func() {
					defer blockedWG.Done()
					for _, rs := range batch {
						rs.CallStart = o.Log.Add("produce-start", rs.ID, "", nil, 0, 0)
						t0 := time.Now()
						o.started.Add(1)
						cl.Produce(ctx, rs.Rec, promise(rs))
						o.finished.Add(1)
						end := o.Log.Add("produce-end", rs.ID, "", nil, int64(time.Since(t0)), 0)
						o.mu.Lock()
						o.CallDur[rs.ID] = time.Since(t0)
						rs.CallEnd = end
						o.mu.Unlock()
					}
				})
			}
		case "flush":
			if s.Quiesce {
				e.Settle()
				o.quiescent(cl)
			}
			fo := &FlushObs{Start: o.Log.Add("flush-start", 0, "", nil, 0, 0), StartAt: time.Duration(0)}
			o.mu.Lock()
			o.Flushes = append(o.Flushes, fo)
			o.mu.Unlock()
			to := s.FlushTO
			e.Go(func() {
				ctx := context.Background()
				if to > 0 {
					var cancel context.CancelFunc
					ctx, cancel = context.WithTimeout(ctx, to)
					defer cancel()
				}
				err := cl.Flush(ctx)
				n := o.Log.Add("flush-end", 0, "", err, 0, 0)
				o.mu.Lock()
				fo.End, fo.Err, fo.Returned = n, err, true
				o.mu.Unlock()
			})
		case "abort":
			fo := &FlushObs{Start: o.Log.Add("abort-start", 0, "", nil, 0, 0)}
			o.mu.Lock()
			o.Aborts = append(o.Aborts, fo)
			o.FailurePaths["abort"]++
			o.mu.Unlock()
			e.Go(func() {
				ctx, cancel := context.WithTimeout(context.Background(), Bound)
				defer cancel()
				err := cl.AbortBufferedRecords(ctx)
				n := o.Log.Add("abort-end", 0, "", err, 0, 0)
				o.mu.Lock()
				fo.End, fo.Err, fo.Returned = n, err, true
				o.mu.Unlock()
			})
		case "purge":
			o.Log.Add("purge", 0, topicName(s.Topic), nil, 0, 0)
			o.mu.Lock()
			o.FailurePaths["purge"]++
			o.mu.Unlock()
			tn := topicName(s.Topic)
			e.Go(func() { cl.PurgeTopicsFromClient(tn) })
		case "netfault":
			o.Log.Add("netfault", int64(s.Key), s.Act.String(), nil, int64(s.Dur), 0)
			e.Net.AddRuleNext(s.Key, s.Act, s.Dur)
			o.mu.Lock()
			o.FailurePaths["net-"+s.Act.String()]++
			o.mu.Unlock()
		case "appenderr":
			code := s.Code
			o.Log.Add("appenderr", int64(code), "", nil, 0, 0)
			e.Net.AddRule(bubble.Rule{Key: 0, Nth: 0, Act: bubble.RewriteResponse, Code: code, Rewrite: func(ri *bubble.ReqInfo, body []byte) []byte {
				return RewriteProduceErr(ri.Version, body, code)
			}})
			o.mu.Lock()
			o.FailurePaths[fmt.Sprintf("appended-but-code-%d", code)]++
			o.mu.Unlock()
		case "stall":
			// a one-way stall: for Dur every request still reaches the broker and is handled, no
			// response comes back (the client keeps pipelining up to its in-flight limits), then
			// every connection dies; the steps that follow run during the stall
			o.Log.Add("stall", 0, "", nil, int64(s.Dur), 0)
			e.Net.SetMode(0, true)
			d := s.Dur
			e.Go(func() {
				time.Sleep(d)
				e.Net.KillAll()
				e.Net.SetMode(0, false)
			})
			o.mu.Lock()
			o.FailurePaths["stall-then-kill"]++
			o.mu.Unlock()
		case "slowkill":
			// The next produce request is answered slowly (Dur), so that the batches produced
			// meanwhile queue up behind it. The instant its response is handed to the client the
			// network goes one-way (requests are still handled, responses are swallowed), so the
			// whole pipeline the client sends next is appended without any of it being answered;
			// after another Dur every connection dies and all of it is resent.
			o.Log.Add("slowkill", 0, "", nil, int64(s.Dur), 0)
			d := s.Dur
			e.Net.AddRuleNext(0, bubble.DelayResponse, d)
			var once sync.Once
			e.Net.SetOnResp(func(ri *bubble.ReqInfo, _ []byte) {
				if ri.Key != 0 {
					return
				}
				once.Do(func() {
					e.Net.SetMode(0, true)
					e.Go(func() {
						time.Sleep(d + d) // the slow response is delivered after d; the pipeline then has d
						e.Net.SetOnResp(nil)
						e.Net.KillAll()
						e.Net.SetMode(0, false)
					})
				})
			})
			o.mu.Lock()
			o.FailurePaths["slow-then-kill"]++
			o.mu.Unlock()
		case "killall":
			o.Log.Add("killall", 0, "", nil, 0, 0)
			e.Net.KillAll()
			o.mu.Lock()
			o.FailurePaths["killall"]++
			o.mu.Unlock()
		case "errcode":
			code := s.Code
			o.Log.Add("errcode", int64(code), "", nil, 0, 0)
			e.Cluster.ControlKey(0, func(kreq kmsg.Request) (kmsg.Response, error, bool) {
				req := kreq.(*kmsg.ProduceRequest)
				if req.Acks == 0 {
					return nil, nil, false
				}
				return produceErrResp(req, code), nil, true
			})
			o.mu.Lock()
			o.FailurePaths[fmt.Sprintf("code-%d", code)]++
			o.mu.Unlock()
		case "move":
			nodes := e.Cluster.ListenAddrs()
			_ = nodes
			err := e.Cluster.MoveTopicPartition(p.Topics[s.Topic], s.Partition, int32(s.Node))
			o.Log.Add("move", int64(s.Node), p.Topics[s.Topic], err, int64(s.Partition), 0)
			if err == nil {
				o.mu.Lock()
				o.FailurePaths["move"]++
				o.mu.Unlock()
			}
		case "deltopic":
			tn := topicName(s.Topic)
			req := kmsg.NewPtrDeleteTopicsRequest()
			req.TopicNames = []string{tn}
			rt := kmsg.NewDeleteTopicsRequestTopic()
			rt.Topic = kmsg.StringPtr(tn)
			req.Topics = append(req.Topics, rt)
			req.TimeoutMillis = 1000
			ctx, cancel := context.WithTimeout(context.Background(), time.Minute)
			_, err := req.RequestWith(ctx, admin)
			cancel()
			o.Log.Add("deltopic", 0, tn, err, 0, 0)
			o.mu.Lock()
			o.FailurePaths["deltopic"]++
			o.mu.Unlock()
		case "mktopic":
			tn := topicName(s.Topic)
			req := kmsg.NewPtrCreateTopicsRequest()
			rt := kmsg.NewCreateTopicsRequestTopic()
			rt.Topic = tn
			rt.NumPartitions = 4
			if s.Topic < len(p.Parts) {
				rt.NumPartitions = p.Parts[s.Topic]
			}
			rt.ReplicationFactor = 1
			req.Topics = append(req.Topics, rt)
			req.TimeoutMillis = 1000
			ctx, cancel := context.WithTimeout(context.Background(), time.Minute)
			_, err := req.RequestWith(ctx, admin)
			cancel()
			o.Log.Add("mktopic", 0, tn, err, 0, 0)
		case "sleep":
			time.Sleep(s.Dur)
			e.Settle()
			o.quiescent(cl)
		case "cancelctx":
			o.mu.Lock()
			cs := o.cancels
			o.cancels = nil
			o.mu.Unlock()
			for _, c := range cs {
				c()
			}
			o.Log.Add("cancelctx", int64(len(cs)), "", nil, 0, 0)
		}
		o.BufSamples = append(o.BufSamples, cl.BufferedProduceRecords())
	}

	// ---------- final phase ----------
	o.Log.Add("final", 0, p.Final, nil, 0, 0)
	switch p.Final {
	case "flushclose":
		e.Net.ClearRules()
		// drop leftover error-code controls by letting them be consumed: controls are one-shot, so flush retries through them
		done := make(chan struct{})
		e.Go(func() {
			ctx, cancel := context.WithTimeout(context.Background(), Bound)
			defer cancel()
			o.FinalFlushErr = cl.Flush(ctx)
			close(done)
		})
		o.FinalFlushReturned = bubble.WaitTimeout(done, Bound+time.Minute)
		// all produce calls must have returned by now (their records were flushed or failed)
		wdone := make(chan struct{})
		go func() { blockedWG.Wait(); close(wdone) }()
		o.BlockedProduceReturnedInTime = bubble.WaitTimeout(wdone, Bound)
		if o.FinalFlushReturned && o.FinalFlushErr == nil && o.BlockedProduceReturnedInTime {
			// records whose produce call returned before the flush began are all promised now;
			// later ones may still be buffered, so flush once more now that every call returned
			ctx, cancel := context.WithTimeout(context.Background(), Bound)
			err2 := cl.Flush(ctx)
			cancel()
			if err2 != nil {
				o.FinalFlushErr = err2
			}
			e.Settle()
			o.QuiescentChecked = err2 == nil
			o.AllPromisedAtQuiescence = o.allPromised()
			o.FinalBufferedRecs = cl.BufferedProduceRecords()
			o.FinalBufferedBytes = cl.BufferedProduceBytes()
		}
	case "closeblocked":
		e.Net.Block(true)
	}
	before := o.promisedCount()
	cdone := make(chan struct{})
	t0 := time.Now()
	go func() { cl.Close(); close(cdone) }()
	o.CloseReturned = bubble.WaitTimeout(cdone, Bound)
	o.CloseTook = time.Since(t0)
	o.ClientClosed.Store(true)
	o.Log.Add("closed", 0, "", nil, 0, 0)
	// after Close every outstanding promise is eventually called
	wdone := make(chan struct{})
	go func() { blockedWG.Wait(); close(wdone) }()
	if bubble.WaitTimeout(wdone, Bound) {
		o.BlockedProduceReturnedInTime = true
	} else if p.Final != "flushclose" {
		o.BlockedProduceReturnedInTime = false
	}
	time.Sleep(Bound)
	e.Settle()
	o.PromisesAfterClose = o.promisedCount() - before
	o.KgoGoroutinesAfterClose = bubble.KgoGoroutines()
	o.mu.Lock()
	for _, c := range o.cancels {
		c()
	}
	o.mu.Unlock()
	e.Net.Unblock()
	return o
}

// sampleGauge checks BufferedProduceRecords() <= limit + calls possibly blocked, using
// finished-before / started-after reads so the bound is sound under concurrency.
func (o *ProdObs) sampleGauge(cl *kgo.Client, where string) {
	lim := int64(o.Plan.Cfg.MaxBufRecs)
	if lim <= 0 {
		return
	}
	f0 := o.finished.Load()
	g := cl.BufferedProduceRecords()
	s1 := o.started.Load()
	if g > lim+(s1-f0) {
		o.mu.Lock()
		o.GaugeViolations = append(o.GaugeViolations, fmt.Sprintf("%s: BufferedProduceRecords=%d > limit %d + %d calls in progress", where, g, lim, s1-f0))
		o.mu.Unlock()
	}
	if g >= lim {
		o.mu.Lock()
		o.LimitHit = true
		o.mu.Unlock()
	}
}

func (o *ProdObs) quiescent(cl *kgo.Client) {
	q := QSample{LogN: o.Log.Len(), Gauge: cl.BufferedProduceRecords(), Bytes: cl.BufferedProduceBytes(), PendingCalls: o.started.Load() - o.finished.Load()}
	o.mu.Lock()
	for _, f := range o.Flushes {
		if !f.Returned {
			q.PendingFlushes++
		}
	}
	o.Quiescents = append(o.Quiescents, q)
	o.mu.Unlock()
}

func (o *ProdObs) allPromised() bool {
	o.mu.Lock()
	defer o.mu.Unlock()
	for _, rs := range o.Recs {
		if atomic.LoadInt32(&rs.Promises) == 0 {
			return false
		}
	}
	return true
}

func (o *ProdObs) promisedCount() int {
	o.mu.Lock()
	defer o.mu.Unlock()
	n := 0
	for _, rs := range o.Recs {
		if atomic.LoadInt32(&rs.Promises) > 0 {
			n++
		}
	}
	return n
}

// Brief renders the plan compactly for failure messages.
func (p ProdPlan) Brief() string {
	var b strings.Builder
	fmt.Fprintf(&b, "brokers=%d topics=%v parts=%v autocreate=%v cfg=%+v final=%s steps:", p.Brokers, p.Topics, p.Parts, p.AutoCreate, p.Cfg, p.Final)
	for i, s := range p.Steps {
		fmt.Fprintf(&b, " [%d +%v %s", i, s.Delay, s.Kind)
		switch s.Kind {
		case "produce":
			fmt.Fprintf(&b, " %s n=%d t=%d p=%d len=%d ctx=%v", s.Mode, s.N, s.Topic, s.Partition, s.ValLen, s.CtxAfter)
		case "flush":
			fmt.Fprintf(&b, " to=%v", s.FlushTO)
		case "netfault":
			fmt.Fprintf(&b, " key=%d %s %v", s.Key, s.Act, s.Dur)
		case "errcode":
			fmt.Fprintf(&b, " code=%d", s.Code)
		case "move":
			fmt.Fprintf(&b, " t=%d p=%d node=%d", s.Topic, s.Partition, s.Node)
		case "purge", "deltopic", "mktopic":
			fmt.Fprintf(&b, " t=%d", s.Topic)
		case "sleep", "stall", "slowkill":
			fmt.Fprintf(&b, " %v", s.Dur)
		}
		b.WriteString("]")
	}
	return b.String()
}

// Digest summarises the plan's shape for distinctness counting.
func (o *ProdObs) Digest() string {
	var ks []string
	for k := range o.FailurePaths {
		ks = append(ks, k)
	}
	sort.Strings(ks)
	return fmt.Sprintf("%s|%s|%v|%d", strings.Join(o.StepKinds, ","), strings.Join(ks, ","), o.Plan.Cfg, o.Plan.Brokers) + o.Plan.Final
}

// ErrIs reports errors.Is in either direction (promise vs hook error identity).
func ErrIs(a, b error) bool {
	if a == nil || b == nil {
		return a == nil && b == nil
	}
	return errors.Is(a, b) || errors.Is(b, a) || a.Error() == b.Error()
}
