// Reference decoders for what a Produce request carries per partition: legacy message sets
// (magic 0 / 1, optionally one compressed wrapper message) and record batches (magic 2).
// Written from the Kafka protocol documentation; nothing here uses kgo or kmsg.
package c18

import (
	"bytes"
	"encoding/binary"
	"errors"
	"fmt"
	"hash/crc32"
	"io"

	kgzip "github.com/klauspost/compress/gzip"
	"github.com/klauspost/compress/zstd"
	"github.com/pierrec/lz4/v4"
)

type Header struct {
	Key   string
	Value []byte // nil = null
}

// Rec is one decoded record / message.
type Rec struct {
	OffsetDelta int64
	Timestamp   int64 // absolute ms; -1 if the format has none
	Key, Value  []byte
	KeyNil      bool
	ValueNil    bool
	Headers     []Header
}

// Batch is one decoded record batch (magic 2) or one message set (magic 0/1).
type Batch struct {
	Magic           int8
	Codec           int8
	Transactional   bool
	Control         bool
	LogAppendTime   bool
	FirstOffset     int64
	Length          int32
	LeaderEpoch     int32
	CRC             uint32
	LastOffsetDelta int32
	FirstTimestamp  int64
	MaxTimestamp    int64
	ProducerID      int64
	ProducerEpoch   int16
	FirstSequence   int32
	NumRecords      int32
	Records         []Rec
	// sizes
	WireLen         int // bytes of the batch / message set as written
	UncompressedLen int // bytes it would have without compression
}

var crc32c = crc32.MakeTable(crc32.Castagnoli)

type rd struct {
	b   []byte
	err error
}

func (r *rd) fail(s string) {
	if r.err == nil {
		r.err = errors.New(s)
	}
}
func (r *rd) take(n int) []byte {
	if r.err != nil {
		return nil
	}
	if n < 0 || n > len(r.b) {
		r.fail(fmt.Sprintf("need %d bytes, have %d", n, len(r.b)))
		return nil
	}
	out := r.b[:n]
	r.b = r.b[n:]
	return out
}
func (r *rd) i8() int8 {
	b := r.take(1)
	if b == nil {
		return 0
	}
	return int8(b[0])
}
func (r *rd) i16() int16 {
	b := r.take(2)
	if b == nil {
		return 0
	}
	return int16(binary.BigEndian.Uint16(b))
}
func (r *rd) i32() int32 {
	b := r.take(4)
	if b == nil {
		return 0
	}
	return int32(binary.BigEndian.Uint32(b))
}
func (r *rd) i64() int64 {
	b := r.take(8)
	if b == nil {
		return 0
	}
	return int64(binary.BigEndian.Uint64(b))
}

// uvar reads an unsigned varint of at most maxBytes bytes.
func (r *rd) uvar(maxBytes int) uint64 {
	var x uint64
	for i := 0; i < maxBytes; i++ {
		b := r.take(1)
		if b == nil {
			return 0
		}
		x |= uint64(b[0]&0x7f) << (7 * uint(i))
		if b[0]&0x80 == 0 {
			return x
		}
	}
	r.fail("varint too long")
	return 0
}
func (r *rd) varint() int32 {
	u := r.uvar(5)
	if u > 0xffffffff {
		r.fail("varint overflows 32 bits")
	}
	v := uint32(u)
	return int32(v>>1) ^ -int32(v&1)
}
func (r *rd) varlong() int64 {
	u := r.uvar(10)
	return int64(u>>1) ^ -int64(u&1)
}

// minimal: the canonical (shortest) varint encodings are required of a writer.
func varintLen(v int32) int {
	u := uint32(v<<1) ^ uint32(v>>31)
	n := 1
	for u >= 0x80 {
		u >>= 7
		n++
	}
	return n
}
func varlongLen(v int64) int {
	u := uint64(v<<1) ^ uint64(v>>63)
	n := 1
	for u >= 0x80 {
		u >>= 7
		n++
	}
	return n
}

// DecodeRecordBatch decodes exactly one magic-2 batch that must span all of b.
func DecodeRecordBatch(b []byte) (*Batch, error) {
	out := &Batch{WireLen: len(b)}
	r := &rd{b: b}
	out.FirstOffset = r.i64()
	out.Length = r.i32()
	if r.err != nil {
		return nil, r.err
	}
	if int(out.Length) != len(r.b) {
		return nil, fmt.Errorf("batch length field %d but %d bytes follow it", out.Length, len(r.b))
	}
	out.LeaderEpoch = r.i32()
	out.Magic = r.i8()
	if r.err == nil && out.Magic != 2 {
		return nil, fmt.Errorf("magic %d, want 2", out.Magic)
	}
	out.CRC = uint32(r.i32())
	if r.err != nil {
		return nil, r.err
	}
	if got := crc32.Checksum(r.b, crc32c); got != out.CRC {
		return nil, fmt.Errorf("crc32c field %08x, computed %08x", out.CRC, got)
	}
	attrs := r.i16()
	out.Codec = int8(attrs & 0x7)
	out.LogAppendTime = attrs&0x8 != 0
	out.Transactional = attrs&0x10 != 0
	out.Control = attrs&0x20 != 0
	if attrs&^0x3f != 0 {
		return nil, fmt.Errorf("unknown attribute bits %#x", attrs)
	}
	out.LastOffsetDelta = r.i32()
	out.FirstTimestamp = r.i64()
	out.MaxTimestamp = r.i64()
	out.ProducerID = r.i64()
	out.ProducerEpoch = r.i16()
	out.FirstSequence = r.i32()
	out.NumRecords = r.i32()
	if r.err != nil {
		return nil, r.err
	}
	payload := r.b
	hdr := len(b) - len(payload)
	if out.Codec != 0 {
		raw, err := Decompress(out.Codec, payload)
		if err != nil {
			return nil, fmt.Errorf("decompress codec %d: %v", out.Codec, err)
		}
		payload = raw
	}
	out.UncompressedLen = hdr + len(payload)
	if out.NumRecords < 0 || int(out.NumRecords) > len(payload) {
		return nil, fmt.Errorf("record count %d with %d payload bytes", out.NumRecords, len(payload))
	}
	pr := &rd{b: payload}
	for i := int32(0); i < out.NumRecords; i++ {
		before := len(pr.b)
		l := pr.varint()
		if pr.err != nil {
			return nil, fmt.Errorf("record %d: %v", i, pr.err)
		}
		if varintLen(l) != before-len(pr.b) {
			return nil, fmt.Errorf("record %d: length varint is not minimal", i)
		}
		body := pr.take(int(l))
		if pr.err != nil {
			return nil, fmt.Errorf("record %d: length %d: %v", i, l, pr.err)
		}
		rr := &rd{b: body}
		if a := rr.i8(); a != 0 && rr.err == nil {
			return nil, fmt.Errorf("record %d: attributes %d, want 0", i, a)
		}
		tsd := rr.varlong()
		od := rr.varint()
		rec := Rec{OffsetDelta: int64(od), Timestamp: out.FirstTimestamp + tsd}
		kl := rr.varint()
		if kl < 0 {
			rec.KeyNil = true
		} else {
			rec.Key = rr.take(int(kl))
		}
		vl := rr.varint()
		if vl < 0 {
			rec.ValueNil = true
		} else {
			rec.Value = rr.take(int(vl))
		}
		nh := rr.varint()
		if rr.err == nil && (nh < 0 || int(nh) > len(rr.b)) {
			return nil, fmt.Errorf("record %d: header count %d", i, nh)
		}
		for h := int32(0); h < nh && rr.err == nil; h++ {
			hk := rr.varint()
			if hk < 0 {
				return nil, fmt.Errorf("record %d: null header key", i)
			}
			k := rr.take(int(hk))
			hv := rr.varint()
			var v []byte
			if hv >= 0 {
				v = rr.take(int(hv))
				if v == nil {
					v = []byte{}
				}
			}
			rec.Headers = append(rec.Headers, Header{string(k), v})
		}
		if rr.err != nil {
			return nil, fmt.Errorf("record %d: %v", i, rr.err)
		}
		if len(rr.b) != 0 {
			return nil, fmt.Errorf("record %d: %d bytes left inside the record's length", i, len(rr.b))
		}
		// the length field must be what a canonical encoding of these fields takes
		want := 1 + varlongLen(tsd) + varintLen(od) + varintLen(kl) + len(rec.Key) + varintLen(vl) + len(rec.Value) + varintLen(nh)
		for _, h := range rec.Headers {
			hv := int32(len(h.Value))
			if h.Value == nil {
				hv = -1
			}
			want += varintLen(int32(len(h.Key))) + len(h.Key) + varintLen(hv) + len(h.Value)
		}
		if want != int(l) {
			return nil, fmt.Errorf("record %d: length field %d, canonical encoding needs %d", i, l, want)
		}
		out.Records = append(out.Records, rec)
	}
	if len(pr.b) != 0 {
		return nil, fmt.Errorf("%d bytes after the last record", len(pr.b))
	}
	return out, nil
}

// DecodeMessageSet decodes a legacy message set spanning all of b: either plain messages or
// one compressed wrapper message holding the inner set.
func DecodeMessageSet(b []byte, wantMagic int8) (*Batch, error) {
	out := &Batch{WireLen: len(b), Magic: wantMagic, ProducerID: -1, ProducerEpoch: -1}
	msgs, err := decodeMessages(b, wantMagic)
	if err != nil {
		return nil, err
	}
	if len(msgs) == 1 && msgs[0].codec != 0 {
		w := msgs[0]
		out.Codec = w.codec
		if w.rec.ValueNil {
			return nil, errors.New("wrapper message with null value")
		}
		raw, err := Decompress(w.codec, w.rec.Value)
		if err != nil {
			return nil, fmt.Errorf("decompress wrapper codec %d: %v", w.codec, err)
		}
		inner, err := decodeMessages(raw, wantMagic)
		if err != nil {
			return nil, fmt.Errorf("inner message set: %v", err)
		}
		for _, m := range inner {
			if m.codec != 0 {
				return nil, errors.New("nested compression")
			}
			out.Records = append(out.Records, m.rec)
		}
		out.UncompressedLen = len(raw)
		// wrapper offset: offset of the last inner message
		out.LastOffsetDelta = int32(w.rec.OffsetDelta)
		out.FirstTimestamp = w.rec.Timestamp
	} else {
		for _, m := range msgs {
			if m.codec != 0 {
				return nil, errors.New("compressed message next to other messages")
			}
			out.Records = append(out.Records, m.rec)
		}
		out.UncompressedLen = len(b)
		if n := len(out.Records); n > 0 {
			out.LastOffsetDelta = int32(out.Records[n-1].OffsetDelta)
		}
	}
	out.NumRecords = int32(len(out.Records))
	return out, nil
}

type legacyMsg struct {
	codec int8
	rec   Rec
}

func decodeMessages(b []byte, wantMagic int8) ([]legacyMsg, error) {
	var out []legacyMsg
	r := &rd{b: b}
	for len(r.b) > 0 {
		off := r.i64()
		size := r.i32()
		body := r.take(int(size))
		if r.err != nil {
			return nil, fmt.Errorf("message %d: %v", len(out), r.err)
		}
		mr := &rd{b: body}
		crc := uint32(mr.i32())
		if mr.err != nil {
			return nil, mr.err
		}
		if got := crc32.ChecksumIEEE(mr.b); got != crc {
			return nil, fmt.Errorf("message %d: crc field %08x, computed %08x", len(out), crc, got)
		}
		magic := mr.i8()
		attrs := mr.i8()
		if magic != wantMagic {
			return nil, fmt.Errorf("message %d: magic %d, want %d", len(out), magic, wantMagic)
		}
		if attrs&^0x7 != 0 {
			return nil, fmt.Errorf("message %d: attribute bits %#x", len(out), attrs)
		}
		m := legacyMsg{codec: attrs & 0x7, rec: Rec{OffsetDelta: off, Timestamp: -1}}
		if magic == 1 {
			m.rec.Timestamp = mr.i64()
		}
		kl := mr.i32()
		if kl < 0 {
			m.rec.KeyNil = true
		} else {
			m.rec.Key = mr.take(int(kl))
		}
		vl := mr.i32()
		if vl < 0 {
			m.rec.ValueNil = true
		} else {
			m.rec.Value = mr.take(int(vl))
		}
		if mr.err != nil {
			return nil, fmt.Errorf("message %d: %v", len(out), mr.err)
		}
		if len(mr.b) != 0 {
			return nil, fmt.Errorf("message %d: %d bytes left inside the message size", len(out), len(mr.b))
		}
		out = append(out, m)
	}
	return out, nil
}

// Decompress inflates payload with libraries chosen to differ from the ones the client
// compresses with where the sandbox has an alternative: gzip via klauspost (kgo: stdlib),
// snappy via the decoder below (kgo: klauspost s2). lz4 and zstd have no second
// implementation offline and use pierrec / klauspost like kgo does.
func Decompress(codec int8, p []byte) ([]byte, error) {
	switch codec {
	case 1:
		zr, err := kgzip.NewReader(bytes.NewReader(p))
		if err != nil {
			return nil, err
		}
		return io.ReadAll(zr)
	case 2:
		return snappyDecode(p)
	case 3:
		return io.ReadAll(lz4.NewReader(bytes.NewReader(p)))
	case 4:
		zr, err := zstd.NewReader(bytes.NewReader(p))
		if err != nil {
			return nil, err
		}
		defer zr.Close()
		return io.ReadAll(zr)
	}
	return nil, fmt.Errorf("unknown codec %d", codec)
}

// snappyDecode decodes the raw snappy block format (format_description.txt of snappy).
func snappyDecode(src []byte) ([]byte, error) {
	r := &rd{b: src}
	n := r.uvar(5)
	if r.err != nil {
		return nil, r.err
	}
	if n > 1<<28 {
		return nil, fmt.Errorf("snappy: decoded length %d", n)
	}
	dst := make([]byte, 0, n)
	s := r.b
	for len(s) > 0 {
		tag := s[0]
		switch tag & 3 {
		case 0: // literal
			l := int(tag >> 2)
			s = s[1:]
			if l >= 60 {
				nb := l - 59
				if len(s) < nb {
					return nil, errors.New("snappy: short literal length")
				}
				l = 0
				for i := 0; i < nb; i++ {
					l |= int(s[i]) << (8 * uint(i))
				}
				s = s[nb:]
			}
			l++
			if l > len(s) {
				return nil, errors.New("snappy: short literal")
			}
			dst = append(dst, s[:l]...)
			s = s[l:]
		default:
			var length, offset int
			switch tag & 3 {
			case 1:
				if len(s) < 2 {
					return nil, errors.New("snappy: short copy1")
				}
				length = 4 + int(tag>>2)&7
				offset = int(tag>>5)<<8 | int(s[1])
				s = s[2:]
			case 2:
				if len(s) < 3 {
					return nil, errors.New("snappy: short copy2")
				}
				length = 1 + int(tag>>2)
				offset = int(s[1]) | int(s[2])<<8
				s = s[3:]
			case 3:
				if len(s) < 5 {
					return nil, errors.New("snappy: short copy4")
				}
				length = 1 + int(tag>>2)
				offset = int(s[1]) | int(s[2])<<8 | int(s[3])<<16 | int(s[4])<<24
				s = s[5:]
			}
			if offset <= 0 || offset > len(dst) {
				return nil, errors.New("snappy: bad copy offset")
			}
			for i := 0; i < length; i++ {
				dst = append(dst, dst[len(dst)-offset])
			}
		}
	}
	if uint64(len(dst)) != n {
		return nil, fmt.Errorf("snappy: decoded %d bytes, header says %d", len(dst), n)
	}
	return dst, nil
}
