//go:build synctests

// Package c18 checks property C18: for every produce version (0-13), compression choice and
// record set, the bytes the client writes decode to one batch per partition holding the
// buffered records in order; lengths, CRC, offset and timestamp deltas, attributes, producer
// id, epoch and sequence are consistent; a written produce request never exceeds
// BrokerMaxWriteBytes and a written batch never exceeds the configured maximum batch size.
//
// A real kgo producer runs against verif/h/scriptbroker (which pins the produce version
// through its ApiVersions table and records every frame) inside a synctest bubble.
package c18

import (
	"bytes"
	"context"
	"encoding/binary"
	"encoding/json"
	"errors"
	"fmt"
	"os"
	"sort"
	"strings"
	"sync"
	"testing"
	"time"

	"github.com/twmb/franz-go/pkg/kerr"
	"github.com/twmb/franz-go/pkg/kgo"
	"github.com/twmb/franz-go/pkg/kmsg"
	"pgregory.net/rapid"

	"verif/h/ev"
	sb "verif/h/scriptbroker"
)

func TestMain(m *testing.M) { ev.Main(m, "C18") }

// Finding keys. All three defects below were first seen with this check and have since been
// repaired in /repo ("fix:" commits 28b5692, d278f6e, 281756d; the reverse patches are
// /verif/seeded/orig-C18-msgset-sizing, orig-C18-flex-tags, orig-C18-first-request-topicid).
// None is listed in KNOWN_FINDINGS.json, so everything is asserted strictly and the recorded
// witnesses (TestKnownFindingWitnesses) must pass. The plumbing stays: should a key ever be
// listed as open for C18 in $VERIF_KNOWN and its witness reproduce, exactly that input class
// is treated as described at its use (excluded by construction or held to the stated weaker
// bound) and counted with ev.Excluded.
const (
	// produce v0-v2 (message sets): tryBuffer sizes the record being added with its
	// record-batch-v2 length, so a message set can exceed ProducerBatchMaxBytes.
	knownMsgSetBatchMax = "message-set-batch-exceeds-producer-batch-max-bytes-on-produce-v0-v2"
	// flexible produce versions: per-topic / per-partition tagged-field bytes are not
	// accounted, so a packed request can exceed BrokerMaxWriteBytes.
	knownFlexWriteLimit = "flexible-produce-request-exceeds-broker-max-write-bytes-by-unaccounted-tag-bytes"
	// the first request to a broker (produce version not yet known to the sink) sizes a new
	// topic by its name; if v13 is then negotiated the 16-byte topic id is written instead.
	knownFirstReqV13 = "first-produce-request-v13-topic-id-undercounted-while-version-unknown"
)

var (
	knownOnce   sync.Once
	knownListed = map[string]bool{}
	knownActive = map[string]bool{}
)

func loadKnown() {
	knownOnce.Do(func() {
		raw, err := os.ReadFile(os.Getenv("VERIF_KNOWN"))
		if err != nil {
			return
		}
		var k struct {
			Findings []struct {
				Property string `json:"property"`
				Key      string `json:"key"`
				Status   string `json:"status"`
			} `json:"findings"`
		}
		if json.Unmarshal(raw, &k) != nil {
			return
		}
		for _, f := range k.Findings {
			if f.Property == "C18" && f.Status == "open" {
				knownListed[f.Key] = true
			}
		}
	})
}

// ---- plan ----

const (
	modeIdempotent = iota
	modePlain
	modeTxn
)

type hdrPlan struct {
	Key    string `json:"k"`
	ValLen int    `json:"vl"` // <0: null value
}

type recPlan struct {
	T       int           `json:"t"`
	P       int32         `json:"p"`
	KeyPad  int           `json:"kp"`
	ValLen  int           `json:"vl"` // <0: nil value
	ValMode int           `json:"vm"` // 0 zeros 1 pattern 2 pseudo-random
	Seed    uint32        `json:"seed"`
	Headers []hdrPlan     `json:"h,omitempty"`
	TsMs    int64         `json:"ts"` // 0: let the client stamp
	TsNanos int64         `json:"tsn,omitempty"`
	Gap     time.Duration `json:"gap,omitempty"`   // virtual sleep before producing
	Flush   bool          `json:"flush,omitempty"` // Flush (txn: commit) after producing
}

type topicPlan struct {
	Name  string `json:"name"`
	Parts int32  `json:"parts"`
}

type faultPlan struct {
	Nth  int   `json:"nth"`  // index of the Produce frame it applies to
	Code int16 `json:"code"` // 0: close the connection before handling; -1: handle (append), then close without answering
	Sel  int   `json:"sel"`  // which partitions of the request: 0 all, k>0: every k-th
}

type plan struct {
	PV       int16         `json:"produce_version"`
	MetaMax  int16         `json:"metadata_max"`
	Mode     int           `json:"mode"`
	Acks     int16         `json:"acks"`
	Codecs   []int8        `json:"codecs"`
	ClientID *string       `json:"client_id"`
	TxnID    string        `json:"txn_id,omitempty"`
	TxnV     int16         `json:"transaction_version_feature"`
	Topics   []topicPlan   `json:"topics"`
	W        int32         `json:"broker_max_write_bytes"`
	B        int32         `json:"producer_batch_max_bytes"`
	Linger   time.Duration `json:"linger"`
	Recs     []recPlan     `json:"recs"`
	Faults   []faultPlan   `json:"faults,omitempty"`
}

func genName(t *rapid.T, label string, maxLen int) string {
	n := rapid.SampledFrom([]int{1, 3, 8, 20, 60, 127, 128, 200, 249}).Draw(t, label+"_len")
	if n > maxLen {
		n = maxLen
	}
	if rapid.IntRange(0, 2).Draw(t, label+"_short") > 0 && n > 12 {
		n = rapid.IntRange(1, 12).Draw(t, label+"_len2")
	}
	var b strings.Builder
	b.WriteString(label[:1])
	for b.Len() < n {
		b.WriteByte("abcdefghijklmnopqrstuvwxyz0123456789-_."[rapid.IntRange(0, 36).Draw(t, label+"_c")])
		if b.Len() > 16 {
			// long names: fill deterministically, the content does not matter
			for b.Len() < n {
				b.WriteByte('x')
			}
		}
	}
	return b.String()[:n]
}

func genPlan(t *rapid.T) *plan {
	p := &plan{}
	p.PV = int16(rapid.IntRange(0, 13).Draw(t, "produce_version"))
	p.MetaMax = 13
	if rapid.IntRange(0, 5).Draw(t, "meta_old") == 0 {
		p.MetaMax = int16(rapid.SampledFrom([]int{1, 4, 9}).Draw(t, "meta_max"))
	}
	p.Mode = rapid.SampledFrom([]int{modeIdempotent, modeIdempotent, modePlain, modeTxn}).Draw(t, "mode")
	if p.Mode == modeTxn && p.PV < 3 {
		p.Mode = modeIdempotent
	}
	p.Acks = -1
	if p.Mode == modePlain && rapid.Bool().Draw(t, "leader_ack") {
		p.Acks = 1
	}
	nc := rapid.IntRange(0, 3).Draw(t, "ncodecs")
	for i := 0; i < nc; i++ {
		p.Codecs = append(p.Codecs, int8(rapid.IntRange(0, 4).Draw(t, "codec")))
	}
	if rapid.IntRange(0, 3).Draw(t, "cid") > 0 {
		s := genName(t, "client", 249)
		if rapid.IntRange(0, 9).Draw(t, "cid_empty") == 0 {
			s = ""
		}
		p.ClientID = &s
	}
	if p.Mode == modeTxn {
		p.TxnID = genName(t, "txn", 249)
		p.TxnV = int16(rapid.IntRange(0, 2).Draw(t, "txn_version_feature"))
	}
	// limits
	p.W = int32(rapid.SampledFrom([]int{1024, 1024, 1400, 2048, 4096, 16384, 65536}).Draw(t, "W"))
	if rapid.IntRange(0, 3).Draw(t, "W_any") == 0 {
		p.W = int32(rapid.IntRange(1024, 65536).Draw(t, "W2"))
	}
	p.B = int32(rapid.IntRange(512, int(p.W)).Draw(t, "B"))
	if rapid.IntRange(0, 2).Draw(t, "B_edge") == 0 {
		p.B = int32(rapid.SampledFrom([]int{512, 600, int(p.W) / 2, int(p.W)}).Draw(t, "B2"))
		if p.B < 512 {
			p.B = 512
		}
	}
	p.Linger = time.Duration(rapid.SampledFrom([]int{0, 5, 5, 20, 100}).Draw(t, "linger_ms")) * time.Millisecond
	nt := rapid.IntRange(1, 6).Draw(t, "ntopics")
	used := map[string]bool{}
	for i := 0; i < nt; i++ {
		maxLen := 249
		if p.W < 4096 {
			maxLen = 60
		}
		name := genName(t, "topic", maxLen)
		for used[name] {
			name += "x"
			if len(name) > 249 {
				name = fmt.Sprintf("t%d", i)
			}
		}
		used[name] = true
		p.Topics = append(p.Topics, topicPlan{Name: name, Parts: int32(rapid.IntRange(1, 8).Draw(t, "nparts"))})
	}
	if knownActive[knownMsgSetBatchMax] && p.PV <= 2 {
		// Known finding's input class (message-set versions): the record being appended is
		// sized with its v2 length, so (a) a message set may exceed ProducerBatchMaxBytes by
		// one record's encoding difference (<= 48 bytes) - for this class that claim is not
		// asserted strictly, see checkBatch - and (b) when the write limit rather than the
		// batch maximum is the binding bound, an admitted batch may fit no request at all
		// and the sink spins forever. (b) is avoided by construction: the batch maximum is
		// kept at least 64 bytes below what one partition can carry in a request.
		over := 26 + 2 + 16 + 12 + 64
		if p.ClientID != nil {
			over += len(*p.ClientID)
		} else {
			over += 3
		}
		longest := 16
		for _, tp := range p.Topics {
			if len(tp.Name) > longest {
				longest = len(tp.Name)
			}
		}
		over += longest
		if int(p.B) > int(p.W)-over {
			if int(p.W)-over < 512 {
				p.W = int32(512 + over)
			}
			p.B = p.W - int32(over)
		}
		ev.Excluded(knownMsgSetBatchMax)
	}
	// records
	shape := rapid.IntRange(0, 3).Draw(t, "shape") // 0 many small, 1 around the batch limit, 2 mixed, 3 packed requests
	n := rapid.IntRange(1, 120).Draw(t, "nrecs")
	if shape == 0 || shape == 3 {
		n = rapid.IntRange(20, 300).Draw(t, "nrecs_many")
	}
	base := int64(1_700_000_000_000)
	budget := 600_000 // bytes of record payload per case
	for i := 0; i < n && budget > 0; i++ {
		r := recPlan{}
		r.T = rapid.IntRange(0, nt-1).Draw(t, "rt")
		r.P = int32(rapid.IntRange(0, int(p.Topics[r.T].Parts)-1).Draw(t, "rp"))
		r.KeyPad = rapid.SampledFrom([]int{0, 0, 0, 5, 40}).Draw(t, "keypad")
		switch {
		case shape == 0:
			r.ValLen = rapid.IntRange(0, 40).Draw(t, "vlen_small")
		case shape == 3:
			r.ValLen = rapid.IntRange(0, int(p.W)/12+8).Draw(t, "vlen_pack")
		case shape == 1:
			d := rapid.IntRange(-140, 20).Draw(t, "vlen_delta")
			r.ValLen = int(p.B)/rapid.SampledFrom([]int{1, 1, 2, 3}).Draw(t, "vlen_div") + d
		default:
			r.ValLen = rapid.SampledFrom([]int{0, 1, 10, 100, 127, 128, 300, 1000, 5000, 16383, 16384, 30000}).Draw(t, "vlen_mix")
			if r.ValLen > int(p.W)+100 {
				r.ValLen = int(p.W) + 100
			}
		}
		if r.ValLen < 0 {
			r.ValLen = 0
		}
		if rapid.IntRange(0, 30).Draw(t, "nilval") == 0 {
			r.ValLen = -1
		}
		r.ValMode = rapid.IntRange(0, 2).Draw(t, "vmode")
		r.Seed = rapid.Uint32().Draw(t, "vseed")
		if rapid.IntRange(0, 3).Draw(t, "hdrs") == 0 {
			nh := rapid.IntRange(1, 3).Draw(t, "nh")
			for h := 0; h < nh; h++ {
				hp := hdrPlan{Key: rapid.StringMatching(`[a-z]{0,9}`).Draw(t, "hk"), ValLen: rapid.SampledFrom([]int{-1, 0, 1, 7, 130}).Draw(t, "hvl")}
				r.Headers = append(r.Headers, hp)
			}
		}
		if rapid.IntRange(0, 2).Draw(t, "ts") > 0 {
			r.TsMs = base + int64(rapid.IntRange(-5000, 5000).Draw(t, "tsd"))
			if rapid.IntRange(0, 9).Draw(t, "ts_far") == 0 {
				r.TsMs = base + int64(rapid.IntRange(-1<<40, 1<<40).Draw(t, "tsd_far"))
			}
			if rapid.Bool().Draw(t, "tsn") {
				r.TsNanos = int64(rapid.IntRange(0, 999_999).Draw(t, "tsnanos"))
			}
		}
		if rapid.IntRange(0, 11).Draw(t, "gap") == 0 {
			r.Gap = time.Duration(rapid.SampledFrom([]int{1, 3, 10, 200}).Draw(t, "gap_ms")) * time.Millisecond
		}
		if rapid.IntRange(0, 25).Draw(t, "flush") == 0 {
			r.Flush = true
		}
		if r.ValLen > 0 {
			budget -= r.ValLen
		}
		budget -= 60
		p.Recs = append(p.Recs, r)
	}
	if p.Mode != modeTxn {
		nf := rapid.SampledFrom([]int{0, 0, 0, 1, 2}).Draw(t, "nfaults")
		for i := 0; i < nf; i++ {
			p.Faults = append(p.Faults, faultPlan{
				Nth:  rapid.IntRange(0, 6).Draw(t, "fault_nth"),
				Code: int16(rapid.SampledFrom([]int{0, 6, 7, 19, -1}).Draw(t, "fault_code")),
				Sel:  rapid.IntRange(0, 2).Draw(t, "fault_sel"),
			})
		}
	}
	return p
}

// ---- record material ----

type produced struct {
	serial   int
	plan     recPlan
	key      []byte
	value    []byte // nil = null
	headers  []kgo.RecordHeader
	ts       time.Time // zero: stamped by the client
	tsLo     int64     // virtual ms at the Produce call (for client-stamped records)
	tsHi     int64
	done     bool
	err      error
	promises int
}

func fill(n int, mode int, seed uint32) []byte {
	b := make([]byte, n)
	switch mode {
	case 0:
	case 1:
		for i := range b {
			b[i] = "kafka-produce-"[i%14]
		}
	default:
		x := seed | 1
		for i := range b {
			x ^= x << 13
			x ^= x >> 17
			x ^= x << 5
			b[i] = byte(x)
		}
	}
	return b
}

func serialOfKey(k []byte) (int, bool) {
	// key = "#<serial>|" + padding
	if len(k) < 3 || k[0] != '#' {
		return 0, false
	}
	n := 0
	for i := 1; i < len(k); i++ {
		if k[i] == '|' {
			return n, i > 1
		}
		if k[i] < '0' || k[i] > '9' {
			return 0, false
		}
		n = n*10 + int(k[i]-'0')
	}
	return 0, false
}

// ---- broker side ----

type partKey struct {
	topic string
	part  int32
}

type appended struct {
	seq, count int32
	base       int64
}

// partState is the broker's per-partition producer state. Like Kafka it remembers the last
// five appended batches of the current producer epoch: a resend of any of them is
// acknowledged again with its original offset instead of being appended twice.
type partState struct {
	pid     int64
	epoch   int16
	nextSeq int32
	last    []appended
	have    bool
	logEnd  int64
}

func (st *partState) duplicateOf(seq, count int32) (int64, bool) {
	for _, a := range st.last {
		if a.seq == seq && a.count == count {
			return a.base, true
		}
	}
	return 0, false
}

type ack struct {
	frame     int // Frame.Seq
	tp        partKey
	code      int16
	appended  bool // false: duplicate of the last appended batch (acked again with its offset)
	responded bool
}

type brokerSide struct {
	mu      sync.Mutex
	p       *plan
	topicID map[[16]byte]string
	parts   map[partKey]*partState
	nProd   int
	acks    []ack
}

func batchMeta(v int16, recs []byte) (pid int64, epoch int16, seq int32, count int32, ok bool) {
	if v >= 3 {
		if len(recs) < 61 {
			return -1, -1, 0, 0, false
		}
		return int64(binary.BigEndian.Uint64(recs[43:])), int16(binary.BigEndian.Uint16(recs[51:])), int32(binary.BigEndian.Uint32(recs[53:])), int32(binary.BigEndian.Uint32(recs[57:])), true
	}
	magic := int8(0)
	if v == 2 {
		magic = 1
	}
	b, err := DecodeMessageSet(recs, magic)
	if err != nil {
		return -1, -1, 0, 0, false
	}
	return -1, -1, 0, b.NumRecords, true
}

func (bs *brokerSide) onProduce(f *sb.Frame, req *kmsg.ProduceRequest, resp *kmsg.ProduceResponse) bool {
	bs.mu.Lock()
	defer bs.mu.Unlock()
	n := bs.nProd
	bs.nProd++
	var fault *faultPlan
	for i := range bs.p.Faults {
		if bs.p.Faults[i].Nth == n {
			fault = &bs.p.Faults[i]
		}
	}
	if fault != nil && fault.Code == 0 {
		return false // connection dies before the request is handled
	}
	dropAnswer := false
	if fault != nil && fault.Code == -1 {
		// the request is handled, the answer is lost: only for the idempotent producer on a
		// version that carries sequences (elsewhere a resend is a legitimate duplicate)
		dropAnswer = bs.p.Mode == modeIdempotent && f.Version >= 3
		fault = nil
	}
	idx := 0
	for ti := range req.Topics {
		t := &req.Topics[ti]
		name := t.Topic
		if f.Version >= 13 {
			name = bs.topicID[t.TopicID]
		}
		for pi := range t.Partitions {
			rp := &resp.Topics[ti].Partitions[pi]
			tp := partKey{name, t.Partitions[pi].Partition}
			idx++
			if fault != nil && (fault.Sel == 0 || idx%fault.Sel == 0) {
				rp.ErrorCode = fault.Code
				rp.BaseOffset = -1
				bs.acks = append(bs.acks, ack{frame: f.Seq, tp: tp, code: fault.Code, responded: req.Acks != 0})
				continue
			}
			st := bs.parts[tp]
			if st == nil {
				st = &partState{}
				bs.parts[tp] = st
			}
			pid, epoch, seq, count, ok := batchMeta(f.Version, t.Partitions[pi].Records)
			if !ok {
				rp.ErrorCode = 2 // CORRUPT_MESSAGE
				rp.BaseOffset = -1
				bs.acks = append(bs.acks, ack{frame: f.Seq, tp: tp, code: 2, responded: true})
				continue
			}
			appendIt := true
			if pid >= 0 {
				switch {
				case !st.have || st.pid != pid || st.epoch != epoch:
					if seq != 0 {
						rp.ErrorCode = 45 // OUT_OF_ORDER_SEQUENCE_NUMBER
						appendIt = false
					}
				case seq == st.nextSeq:
				default:
					if base, dup := st.duplicateOf(seq, count); dup {
						// resend of a batch that is already in the log
						rp.BaseOffset = base
						bs.acks = append(bs.acks, ack{frame: f.Seq, tp: tp, code: 0, appended: false, responded: !dropAnswer})
						continue
					}
					rp.ErrorCode = 45
					appendIt = false
				}
			}
			if !appendIt {
				rp.BaseOffset = -1
				bs.acks = append(bs.acks, ack{frame: f.Seq, tp: tp, code: rp.ErrorCode, responded: true})
				continue
			}
			rp.BaseOffset = st.logEnd
			if !st.have || st.pid != pid || st.epoch != epoch {
				st.last = nil
			}
			st.have, st.pid, st.epoch = true, pid, epoch
			st.last = append(st.last, appended{seq, count, st.logEnd})
			if len(st.last) > 5 {
				st.last = st.last[1:]
			}
			st.nextSeq = int32((int64(seq) + int64(count)) & 0x7fffffff)
			st.logEnd += int64(count)
			bs.acks = append(bs.acks, ack{frame: f.Seq, tp: tp, code: 0, appended: true, responded: req.Acks != 0 && !dropAnswer})
		}
	}
	return !dropAnswer
}

// ---- running a case ----

type outcome struct {
	frames []sb.Frame
	acks   []ack
	recs   []*produced
	pid    int64
	infra  string
	// aborted: the case was cut short (undecodable Produce frame, or stuck); delivery is
	// then not asserted. stuck: Flush timed out in virtual time.
	aborted bool
	stuck   string
}

func codecOpt(c int8) kgo.CompressionCodec {
	switch c {
	case 1:
		return kgo.GzipCompression()
	case 2:
		return kgo.SnappyCompression()
	case 3:
		return kgo.Lz4Compression()
	case 4:
		return kgo.ZstdCompression()
	}
	return kgo.NoCompression()
}

func topicID(i int) [16]byte {
	var id [16]byte
	id[0] = 0x10 + byte(i)
	id[15] = byte(i + 1)
	return id
}

func runCase(tt *testing.T, p *plan) *outcome {
	out := &outcome{pid: 9000}
	var mu sync.Mutex
	sb.Run(tt, func(e *sb.Env) {
		bs := &brokerSide{p: p, topicID: map[[16]byte]string{}, parts: map[partKey]*partState{}}
		s := &sb.Script{Table: map[int16][2]int16{}, Understands: 4, NodeID: 1, Host: "localhost", Port: 9092, PID: out.pid, Epoch: 0, OnProduce: bs.onProduce}
		for k := int16(0); k <= kmsg.MaxKey; k++ {
			if r := kmsg.RequestForKey(k); r != nil {
				s.Table[k] = [2]int16{0, r.MaxVersion()}
				s.Order = append(s.Order, k)
			}
		}
		s.Table[0] = [2]int16{0, p.PV}
		s.Table[3] = [2]int16{0, p.MetaMax}
		if p.Mode == modeTxn && p.TxnV > 0 {
			s.Features = map[string]int16{"transaction.version": p.TxnV}
			s.FeatureOrder = []string{"transaction.version"}
		}
		for i, t := range p.Topics {
			id := topicID(i)
			s.Topics = append(s.Topics, sb.Topic{Name: t.Name, ID: id, Partitions: t.Parts})
			bs.topicID[id] = t.Name
		}
		// A Produce frame whose envelope kmsg cannot decode ends the case at once (the oracle
		// reports the frame); otherwise the client would retry it for the rest of the run.
		caseCtx, cancelCase := context.WithCancel(context.Background())
		defer cancelCase()
		s.Override = func(c *sb.Conn, f *sb.Frame) bool {
			if f.Key == 0 {
				if _, err := sb.ParseRequest(f); err != nil {
					cancelCase()
				}
			}
			return false
		}
		br := e.Listen(9092, s.Handle)
		var codecs []kgo.CompressionCodec
		for _, c := range p.Codecs {
			codecs = append(codecs, codecOpt(c))
		}
		opts := []kgo.Opt{
			kgo.SeedBrokers("localhost:9092"),
			kgo.DisableClientMetrics(),
			kgo.MaxVersions(nil),
			kgo.BrokerMaxWriteBytes(p.W),
			kgo.ProducerBatchMaxBytes(p.B),
			kgo.ProducerLinger(p.Linger),
			kgo.RecordPartitioner(kgo.ManualPartitioner()),
			kgo.ProducerBatchCompression(codecs...),
			kgo.MaxBufferedRecords(1 << 20),
			kgo.ProduceRequestTimeout(3 * time.Second),
			kgo.RetryBackoffFn(func(int) time.Duration { return 10 * time.Millisecond }),
			kgo.MetadataMinAge(10 * time.Millisecond),
			kgo.RequestTimeoutOverhead(2 * time.Second),
		}
		if p.ClientID != nil {
			opts = append(opts, kgo.ClientID(*p.ClientID))
		}
		switch p.Mode {
		case modePlain:
			acks := kgo.AllISRAcks()
			if p.Acks == 1 {
				acks = kgo.LeaderAck()
			}
			opts = append(opts, kgo.DisableIdempotentWrite(), kgo.RequiredAcks(acks))
		case modeTxn:
			opts = append(opts, kgo.TransactionalID(p.TxnID))
		}
		cl, err := e.Client(opts...)
		if err != nil {
			out.infra = fmt.Sprintf("NewClient: %v", err)
			return
		}
		inTxn := false
		begin := func() {
			if p.Mode == modeTxn && !inTxn {
				if err := cl.BeginTransaction(); err != nil {
					out.infra = fmt.Sprintf("BeginTransaction: %v", err)
					return
				}
				inTxn = true
			}
		}
		flush := func() {
			ctx, cancel := context.WithTimeout(caseCtx, 2*time.Minute)
			defer cancel()
			if err := cl.Flush(ctx); err != nil {
				if caseCtx.Err() == nil {
					out.stuck = fmt.Sprintf("Flush did not finish within 2 minutes of virtual time against a broker that answers every request at once: %v (%d records still buffered)", err, cl.BufferedProduceRecords())
				}
				out.aborted = true
				return
			}
			if inTxn {
				if err := cl.EndTransaction(ctx, kgo.TryCommit); err != nil {
					mu.Lock()
					ev.Class("end_transaction_error")
					mu.Unlock()
				}
				inTxn = false
			}
		}
		for i, rp := range p.Recs {
			if out.infra != "" || out.aborted || caseCtx.Err() != nil {
				break
			}
			if rp.Gap > 0 {
				time.Sleep(rp.Gap)
			}
			begin()
			pr := &produced{serial: i, plan: rp}
			pr.key = append([]byte(fmt.Sprintf("#%d|", i)), fill(rp.KeyPad, 1, 0)...)
			if rp.ValLen >= 0 {
				pr.value = fill(rp.ValLen, rp.ValMode, rp.Seed)
			}
			for _, h := range rp.Headers {
				var v []byte
				if h.ValLen >= 0 {
					v = fill(h.ValLen, 1, 0)
				}
				pr.headers = append(pr.headers, kgo.RecordHeader{Key: h.Key, Value: v})
			}
			rec := &kgo.Record{Topic: p.Topics[rp.T].Name, Partition: rp.P, Key: pr.key, Value: pr.value, Headers: pr.headers}
			if rp.TsMs != 0 {
				pr.ts = time.UnixMilli(rp.TsMs).Add(time.Duration(rp.TsNanos))
				rec.Timestamp = pr.ts
			}
			pr.tsLo = time.Now().UnixMilli()
			mu.Lock()
			out.recs = append(out.recs, pr)
			mu.Unlock()
			cl.Produce(context.Background(), rec, func(_ *kgo.Record, err error) {
				mu.Lock()
				pr.done, pr.err = true, err
				pr.promises++
				pr.tsHi = time.Now().UnixMilli()
				mu.Unlock()
			})
			if rp.Flush {
				flush()
			}
		}
		if out.infra == "" && !out.aborted && caseCtx.Err() == nil {
			flush()
		}
		if caseCtx.Err() != nil {
			out.aborted = true
		}
		e.Settle()
		out.frames = br.Frames()
		bs.mu.Lock()
		out.acks = append([]ack(nil), bs.acks...)
		bs.mu.Unlock()
	})
	return out
}

// ---- the oracle ----

type decoded struct {
	frame   *sb.Frame
	tp      partKey
	batch   *Batch
	serials []int
}

func allowedCodec(p *plan, v int16) int8 {
	// first preferred codec usable at this produce version; "none" ends the preference list
	seen := map[int8]bool{}
	for _, c := range p.Codecs {
		if seen[c] {
			continue
		}
		seen[c] = true
		if c == 0 {
			return 0
		}
		if c == 4 && v < 7 {
			continue
		}
		return c
	}
	return 0
}

func check(p *plan, o *outcome) (errs []string) {
	bad := func(format string, a ...any) {
		if len(errs) < 12 {
			errs = append(errs, fmt.Sprintf(format, a...))
		}
	}
	topicByID := map[[16]byte]string{}
	known := map[string]int32{}
	for i, t := range p.Topics {
		topicByID[topicID(i)] = t.Name
		known[t.Name] = t.Parts
	}
	wantCID := "kgo"
	if p.ClientID != nil {
		wantCID = *p.ClientID
	}
	var all []decoded
	for i := range o.frames {
		f := &o.frames[i]
		if f.Key != 0 {
			continue
		}
		where := fmt.Sprintf("produce frame #%d (v%d, %d bytes)", f.Seq, f.Version, 4+int(f.Size))
		if f.HdrErr != "" || f.BadVersion {
			bad("%s: header does not parse: %s", where, f.HdrErr)
			continue
		}
		if f.Version > p.PV {
			bad("%s: version above the broker's advertised maximum %d", where, p.PV)
		}
		overW := 4+int64(f.Size) > int64(p.W)
		if overW && !(knownActive[knownFlexWriteLimit] && f.Version >= 9) && !(knownActive[knownFirstReqV13] && f.Version >= 13) {
			bad("%s: request of %d bytes exceeds BrokerMaxWriteBytes %d", where, 4+int64(f.Size), p.W)
		}
		if f.ClientID == nil || *f.ClientID != wantCID {
			bad("%s: client id %v, configured %q", where, f.ClientID, wantCID)
		}
		if n, has := sb.HeaderTagCount(f); has && n != 0 {
			bad("%s: %d header tags", where, n)
		}
		var req kmsg.ProduceRequest
		req.Version = f.Version
		if err := req.ReadFrom(f.Body); err != nil {
			bad("%s: request body does not decode at its version: %v", where, err)
			continue
		}
		if re := req.AppendTo(nil); !bytes.Equal(re, f.Body) {
			bad("%s: body is not the canonical encoding of what it decodes to (decoded and re-encoded: %d bytes, written: %d bytes)", where, len(re), len(f.Body))
			continue
		}
		if f.Version >= 3 {
			switch {
			case p.Mode == modeTxn && (req.TransactionID == nil || *req.TransactionID != p.TxnID):
				bad("%s: transactional id %v, configured %q", where, req.TransactionID, p.TxnID)
			case p.Mode != modeTxn && req.TransactionID != nil:
				bad("%s: transactional id %q on a non-transactional producer", where, *req.TransactionID)
			}
		}
		if req.Acks != p.Acks {
			bad("%s: acks %d, configured %d", where, req.Acks, p.Acks)
		}
		if req.TimeoutMillis != 3000 {
			bad("%s: timeout %d ms, configured 3000", where, req.TimeoutMillis)
		}
		seenT := map[string]bool{}
		nparts := 0
		codecs := map[int8]bool{}
		for _, t := range req.Topics {
			name := t.Topic
			if f.Version >= 13 {
				var ok bool
				if name, ok = topicByID[t.TopicID]; !ok {
					bad("%s: unknown topic id %x", where, t.TopicID)
					continue
				}
			}
			np, ok := known[name]
			if !ok {
				bad("%s: unknown topic %q", where, name)
				continue
			}
			if seenT[name] {
				bad("%s: topic %q appears twice", where, name)
			}
			seenT[name] = true
			seenP := map[int32]bool{}
			for _, pt := range t.Partitions {
				nparts++
				tp := partKey{name, pt.Partition}
				pw := fmt.Sprintf("%s %s/%d", where, name, pt.Partition)
				if pt.Partition < 0 || pt.Partition >= np {
					bad("%s: partition out of range", pw)
				}
				if seenP[pt.Partition] {
					bad("%s: partition appears twice in one request", pw)
				}
				seenP[pt.Partition] = true
				if pt.Records == nil {
					// a batch failed concurrently is written as null records; nothing to decode
					continue
				}
				var b *Batch
				var err error
				if f.Version >= 3 {
					b, err = DecodeRecordBatch(pt.Records)
				} else {
					magic := int8(0)
					if f.Version == 2 {
						magic = 1
					}
					b, err = DecodeMessageSet(pt.Records, magic)
				}
				if err != nil {
					bad("%s: records do not decode: %v", pw, err)
					continue
				}
				codecs[b.Codec] = true
				d := decoded{frame: f, tp: tp, batch: b}
				checkBatch(p, o, &d, pw, bad)
				all = append(all, d)
			}
		}
		if overW && knownActive[knownFirstReqV13] && f.Version >= 13 {
			// known finding's class (v13 topic ids): the excess must be explained by 18 bytes
			// per topic element plus one per partition element.
			ev.Excluded(knownFirstReqV13)
			if over := 4 + int64(f.Size) - int64(p.W); over > int64(18*len(req.Topics)+nparts) {
				bad("%s: request of %d bytes exceeds BrokerMaxWriteBytes %d by %d bytes, more than 18 per topic and 1 per partition element (%d topics, %d partitions)", where, 4+int64(f.Size), p.W, over, len(req.Topics), nparts)
			}
		} else if overW && knownActive[knownFlexWriteLimit] && f.Version >= 9 {
			// known finding's class (flexible version, tagged-field bytes of the topic and
			// partition elements unaccounted): the strict bound is not asserted; the excess
			// must still be explained by one byte per topic and partition element.
			ev.Excluded(knownFlexWriteLimit)
			if over := 4 + int64(f.Size) - int64(p.W); over > int64(len(req.Topics)+nparts) {
				bad("%s: request of %d bytes exceeds BrokerMaxWriteBytes %d by %d bytes, more than the %d topic and partition elements it carries", where, 4+int64(f.Size), p.W, over, len(req.Topics)+nparts)
			}
		}
		// evidence
		fillPct := int((4 + int64(f.Size)) * 100 / int64(p.W))
		boundary := false
		switch f.Version {
		case 2, 3, 8, 9, 12, 13:
			boundary = true
		}
		nt := boundary || (nparts >= 2 && fillPct >= 90)
		var cs []int
		for c := range codecs {
			cs = append(cs, int(c))
		}
		sort.Ints(cs)
		ev.Case(fmt.Sprintf("v%d|m%d|c%v|np%d|fill%d", f.Version, p.Mode, cs, nparts, fillPct/5), nt)
		ev.Class(fmt.Sprintf("produce_v%02d", f.Version))
		if nparts >= 2 {
			ev.Class("frames_with_2plus_partitions")
			if fillPct >= 90 {
				ev.Class("frames_2plus_partitions_within_10pct_of_write_limit")
			}
		}
		for _, c := range cs {
			ev.Class(fmt.Sprintf("batch_codec_%d", c))
		}
	}
	if o.stuck != "" {
		bad("%s", o.stuck)
	}
	checkSequencesAndDelivery(p, o, all, bad)
	return errs
}

func checkBatch(p *plan, o *outcome, d *decoded, pw string, bad func(string, ...any)) {
	b := d.batch
	f := d.frame
	if b.NumRecords == 0 {
		bad("%s: empty batch", pw)
		return
	}
	limit := int64(p.B)
	if knownActive[knownMsgSetBatchMax] && f.Version <= 2 {
		limit += 48 // weaker claim for the known finding's class: one record's sizing difference
	}
	if int64(b.WireLen) > limit {
		bad("%s: written batch of %d bytes exceeds ProducerBatchMaxBytes %d", pw, b.WireLen, p.B)
	}
	if int64(b.UncompressedLen) > limit {
		bad("%s: batch is %d bytes before compression, ProducerBatchMaxBytes is %d", pw, b.UncompressedLen, p.B)
	}
	if want := allowedCodec(p, f.Version); b.Codec != 0 && b.Codec != want {
		bad("%s: codec %d, preference %v allows %d at this version", pw, b.Codec, p.Codecs, want)
	}
	if f.Version >= 3 {
		if b.FirstOffset != 0 {
			bad("%s: first offset %d, want 0", pw, b.FirstOffset)
		}
		if b.LeaderEpoch != -1 {
			bad("%s: partition leader epoch %d, want -1", pw, b.LeaderEpoch)
		}
		if b.Control || b.LogAppendTime {
			bad("%s: control/log-append-time attribute set", pw)
		}
		if b.Transactional != (p.Mode == modeTxn) {
			bad("%s: transactional bit %v on mode %d", pw, b.Transactional, p.Mode)
		}
		if b.LastOffsetDelta != b.NumRecords-1 {
			bad("%s: last offset delta %d with %d records", pw, b.LastOffsetDelta, b.NumRecords)
		}
		switch p.Mode {
		case modePlain:
			if b.ProducerID != -1 || b.ProducerEpoch != -1 {
				bad("%s: producer id/epoch %d/%d on a non-idempotent producer", pw, b.ProducerID, b.ProducerEpoch)
			}
		default:
			if b.ProducerID != o.pid || b.ProducerEpoch < 0 {
				bad("%s: producer id/epoch %d/%d, broker handed out id %d", pw, b.ProducerID, b.ProducerEpoch, o.pid)
			}
		}
	} else if b.Codec != 0 {
		if int64(b.LastOffsetDelta) != int64(b.NumRecords-1) {
			bad("%s: wrapper message offset %d with %d inner messages", pw, b.LastOffsetDelta, b.NumRecords)
		}
	}
	var maxTs int64
	for i, r := range b.Records {
		if r.OffsetDelta != int64(i) {
			bad("%s: record %d has offset (delta) %d", pw, i, r.OffsetDelta)
		}
		ser, ok := serialOfKey(r.Key)
		if !ok || ser >= len(o.recs) {
			bad("%s: record %d has a key the harness never produced: %q", pw, i, r.Key)
			return
		}
		d.serials = append(d.serials, ser)
		pr := o.recs[ser]
		if p.Topics[pr.plan.T].Name != d.tp.topic || pr.plan.P != d.tp.part {
			bad("%s: record #%d was produced to %s/%d", pw, ser, p.Topics[pr.plan.T].Name, pr.plan.P)
		}
		if !bytes.Equal(r.Key, pr.key) {
			bad("%s: record #%d key differs", pw, ser)
		}
		if r.ValueNil != (pr.value == nil) || !bytes.Equal(r.Value, pr.value) {
			bad("%s: record #%d value differs (null %v/%v, %d/%d bytes)", pw, ser, r.ValueNil, pr.value == nil, len(r.Value), len(pr.value))
		}
		if f.Version >= 3 {
			if len(r.Headers) != len(pr.headers) {
				bad("%s: record #%d has %d headers, produced %d", pw, ser, len(r.Headers), len(pr.headers))
			} else {
				for h := range r.Headers {
					if r.Headers[h].Key != pr.headers[h].Key || (r.Headers[h].Value == nil) != (pr.headers[h].Value == nil) || !bytes.Equal(r.Headers[h].Value, pr.headers[h].Value) {
						bad("%s: record #%d header %d differs", pw, ser, h)
					}
				}
			}
		}
		if f.Version >= 2 { // magic 1 and 2 carry timestamps
			if !pr.ts.IsZero() {
				want := pr.plan.TsMs // sub-millisecond part is truncated
				if r.Timestamp != want {
					bad("%s: record #%d timestamp %d, produced with %d ms", pw, ser, r.Timestamp, want)
				}
			} else if r.Timestamp < pr.tsLo || (pr.done && r.Timestamp > pr.tsHi) {
				bad("%s: record #%d client-stamped timestamp %d outside [%d,%d]", pw, ser, r.Timestamp, pr.tsLo, pr.tsHi)
			}
		}
		if i == 0 || r.Timestamp > maxTs {
			maxTs = r.Timestamp
		}
	}
	if f.Version >= 3 {
		if b.FirstTimestamp != b.Records[0].Timestamp {
			bad("%s: first timestamp %d but record 0 decodes to %d", pw, b.FirstTimestamp, b.Records[0].Timestamp)
		}
		if b.MaxTimestamp != maxTs {
			bad("%s: max timestamp %d, records' maximum is %d", pw, b.MaxTimestamp, maxTs)
		}
	}
}

func sameInts(a, b []int) bool {
	if len(a) != len(b) {
		return false
	}
	for i := range a {
		if a[i] != b[i] {
			return false
		}
	}
	return true
}

func checkSequencesAndDelivery(p *plan, o *outcome, all []decoded, bad func(string, ...any)) {
	// per partition: the records the harness produced there, in produce order, minus those
	// rejected before batching (MESSAGE_TOO_LARGE)
	order := map[partKey][]int{}
	pos := map[int]int{}
	for _, pr := range o.recs {
		if pr.promises > 1 {
			bad("record #%d: promise called %d times", pr.serial, pr.promises)
		}
		if pr.err != nil && errors.Is(pr.err, kerr.MessageTooLarge) {
			ev.Class("records_rejected_message_too_large")
			continue
		}
		tp := partKey{p.Topics[pr.plan.T].Name, pr.plan.P}
		pos[pr.serial] = len(order[tp])
		order[tp] = append(order[tp], pr.serial)
	}
	type epochKey struct {
		tp    partKey
		pid   int64
		epoch int16
	}
	type seqBase struct{ seq0, pos0 int32 }
	bases := map[epochKey]seqBase{}
	acked := map[partKey][]int{}
	ackByFrame := map[int]map[partKey]ack{}
	for _, a := range o.acks {
		if ackByFrame[a.frame] == nil {
			ackByFrame[a.frame] = map[partKey]ack{}
		}
		ackByFrame[a.frame][a.tp] = a
	}
	for i := range all {
		d := &all[i]
		pw := fmt.Sprintf("produce frame #%d %s/%d", d.frame.Seq, d.tp.topic, d.tp.part)
		if len(d.serials) != int(d.batch.NumRecords) {
			continue // already reported
		}
		// contiguous run of the partition's sequence
		first, ok := pos[d.serials[0]]
		if !ok {
			bad("%s: carries record #%d which was rejected as too large", pw, d.serials[0])
			continue
		}
		seq := order[d.tp]
		if first+len(d.serials) > len(seq) || !sameInts(seq[first:first+len(d.serials)], d.serials) {
			bad("%s: records %v are not a run of the partition's produce order %v starting at #%d", pw, d.serials, clip(seq), d.serials[0])
			continue
		}
		if d.frame.Version >= 3 && p.Mode != modePlain {
			k := epochKey{d.tp, d.batch.ProducerID, d.batch.ProducerEpoch}
			bse, seen := bases[k]
			if !seen {
				bse = seqBase{d.batch.FirstSequence, int32(first)}
				bases[k] = bse
				if d.batch.FirstSequence != 0 {
					bad("%s: first batch of producer %d epoch %d on this partition has sequence %d, want 0", pw, k.pid, k.epoch, d.batch.FirstSequence)
				}
			} else {
				want := int32((int64(bse.seq0) + int64(int32(first)-bse.pos0)) & 0x7fffffff)
				if int32(first) < bse.pos0 || d.batch.FirstSequence != want {
					bad("%s: first sequence %d, want %d (epoch %d started at sequence %d with record index %d; this batch starts at index %d)", pw, d.batch.FirstSequence, want, k.epoch, bse.seq0, bse.pos0, first)
				}
			}
		}
		if a, ok := ackByFrame[d.frame.Seq][d.tp]; ok && a.code == 0 && a.appended {
			acked[d.tp] = append(acked[d.tp], d.serials...)
		}
	}
	for _, a := range o.acks {
		switch {
		case a.code != 0:
			ev.Class(fmt.Sprintf("broker_answered_error_%d", a.code))
		case !a.appended:
			ev.Class("broker_acked_duplicate_resend")
		}
	}
	if o.aborted {
		return
	}
	// every record whose promise reported success is in exactly one appended batch, in order
	if p.Acks != 0 {
		for tp, seq := range order {
			var want []int
			for _, s := range seq {
				if pr := o.recs[s]; pr.done && pr.err == nil {
					want = append(want, s)
				}
			}
			got := acked[tp]
			// records appended but reported failed are C02's subject; here only the successful ones
			var gotOK []int
			for _, s := range got {
				if pr := o.recs[s]; pr.done && pr.err == nil {
					gotOK = append(gotOK, s)
				}
			}
			if !sameInts(gotOK, want) {
				bad("%s/%d: records reported successful %v, records in acknowledged batches (in log order) %v", tp.topic, tp.part, clip(want), clip(gotOK))
			}
		}
	}
	for _, pr := range o.recs {
		if !pr.done {
			bad("record #%d: promise never called although Flush returned", pr.serial)
			break
		}
		if pr.err == nil {
			ev.Class("records_acked")
		} else if !errors.Is(pr.err, kerr.MessageTooLarge) {
			ev.Class("records_failed_other")
		}
	}
}

func clip(s []int) string {
	if len(s) <= 24 {
		return fmt.Sprint(s)
	}
	return fmt.Sprintf("%v...(%d)", s[:24], len(s))
}

// witnessMsgSet: produce v1, ProducerBatchMaxBytes 513, one record whose message-set
// encoding is 536 bytes while its record-batch-v2 encoding fits.
func witnessMsgSet() *plan {
	cid := "c4"
	return &plan{PV: 1, MetaMax: 13, Mode: modeIdempotent, Acks: -1, ClientID: &cid,
		Topics: []topicPlan{{Name: "to8", Parts: 1}}, W: 2048, B: 513,
		Recs: []recPlan{{T: 0, P: 0, ValLen: 10, ValMode: 1, TsMs: 1700000000000, Flush: true}, {T: 0, P: 0, ValLen: 506, ValMode: 1, TsMs: 1700000000006}}}
}

// flexFamily: produce v9 (flexible), one topic with 8 partitions, BrokerMaxWriteBytes 1024,
// one record per partition produced at the same instant under a linger so that all eight
// batches are offered to one request; the value lengths (l for seven partitions, l+k for the
// last) sweep the request size across the limit one byte at a time. The per-topic and
// per-partition tagged-field bytes of flexible versions are what the client's size
// accounting leaves out.
func flexFamily() []*plan {
	var out []*plan
	cid := "c"
	for l := 30; l <= 52; l++ {
		for k := 0; k < 8; k++ {
			p := &plan{PV: 9, MetaMax: 13, Mode: modePlain, Acks: -1, ClientID: &cid,
				Topics: []topicPlan{{Name: "t", Parts: 8}}, W: 1024, B: 1024, Linger: 20 * time.Millisecond}
			p.Recs = append(p.Recs, recPlan{T: 0, P: 0, ValLen: 1, ValMode: 1, TsMs: 1700000000000, Flush: true})
			for part := int32(0); part < 8; part++ {
				vl := l
				if part == 7 {
					vl += k
				}
				p.Recs = append(p.Recs, recPlan{T: 0, P: part, ValLen: vl, ValMode: 1, TsMs: 1700000000001})
			}
			out = append(out, p)
		}
	}
	return out
}

// firstReqFamily: produce v13, six topics with one-character names and one partition each,
// one record per topic produced at the same instant under a linger, no earlier request: the
// sink builds its FIRST request without knowing the produce version. Value lengths sweep the
// request size across BrokerMaxWriteBytes.
func firstReqFamily() []*plan {
	var out []*plan
	for l := 60; l <= 75; l++ {
		for k := 0; k < 8; k++ {
			p := &plan{PV: 13, MetaMax: 13, Mode: modePlain, Acks: -1, W: 1024, B: 1024, Linger: 20 * time.Millisecond}
			for i := 0; i < 6; i++ {
				p.Topics = append(p.Topics, topicPlan{Name: string(rune('a' + i)), Parts: 1})
			}
			for i := 0; i < 6; i++ {
				vl := l
				if i == 5 {
					vl += k
				}
				p.Recs = append(p.Recs, recPlan{T: i, P: 0, ValLen: vl, ValMode: 1, TsMs: 1700000000001})
			}
			out = append(out, p)
		}
	}
	return out
}

// boundaryFamily: produce v9, one topic with 16 partitions, BrokerMaxWriteBytes 2048, one
// record per partition produced at the same instant under a linger. Value lengths l (for
// fifteen partitions) run over the range in which the encoded batch is 125-130 bytes long,
// i.e. across the point where the compact length prefix of the records field grows from one
// to two bytes (batch length 127); the client id (part of every request header) is 1-141
// bytes long, sliding the room left for batches one byte at a time while the request is packed
// with as many of the equal batches as fit. A size accounting that is off by a byte per batch exactly at
// that boundary shows only here.
func boundaryFamily() []*plan {
	var out []*plan
	for l := 53; l <= 60; l++ {
		for k := 0; k <= 140; k++ {
			cid := strings.Repeat("c", 1+k)
			p := &plan{PV: 9, MetaMax: 13, Mode: modePlain, Acks: -1, ClientID: &cid,
				Topics: []topicPlan{{Name: "t", Parts: 16}}, W: 2048, B: 1024, Linger: 20 * time.Millisecond}
			p.Recs = append(p.Recs, recPlan{T: 0, P: 0, ValLen: 1, ValMode: 1, TsMs: 1700000000000, Flush: true})
			for part := int32(0); part < 16; part++ {
				p.Recs = append(p.Recs, recPlan{T: 0, P: part, ValLen: l, ValMode: 1, TsMs: 1700000000001})
			}
			out = append(out, p)
		}
	}
	return out
}

var decideOnce sync.Once

func firstWith(errs []string, needle string) string {
	for _, e := range errs {
		if strings.Contains(e, needle) {
			return e
		}
	}
	return ""
}

// decideKnown activates an exclusion iff the finding is listed open and its witness still
// fails in the recorded way; each active finding is announced once.
func decideKnown(tt *testing.T) {
	decideOnce.Do(func() {
		loadKnown()
		if knownListed[knownMsgSetBatchMax] {
			w := witnessMsgSet()
			if hit := firstWith(check(w, runCase(tt, w)), "ProducerBatchMaxBytes"); hit != "" {
				knownActive[knownMsgSetBatchMax] = true
				ev.KnownFinding("C18", knownMsgSetBatchMax+": witness (produce v1, ProducerBatchMaxBytes 513, record value 506 bytes) still fails: "+hit)
				ev.Class("known_finding_witness_still_fails")
			} else {
				ev.Class("known_finding_listed_but_witness_passes_check_is_strict")
			}
		}
		if knownListed[knownFirstReqV13] {
			found := false
			for _, w := range firstReqFamily() {
				if hit := firstWith(check(w, runCase(tt, w)), "exceeds BrokerMaxWriteBytes"); hit != "" {
					knownActive[knownFirstReqV13] = true
					ev.KnownFinding("C18", fmt.Sprintf("%s: witness (first request, produce v13, topics a..f x 1 partition, value lengths %d x5 + %d, BrokerMaxWriteBytes 1024) still fails: %s", knownFirstReqV13, w.Recs[0].ValLen, w.Recs[5].ValLen, hit))
					ev.Class("known_finding_witness_still_fails")
					found = true
					break
				}
			}
			if !found {
				ev.Class("known_finding_listed_but_witness_passes_check_is_strict")
			}
		}
		if knownListed[knownFlexWriteLimit] {
			found := false
			for _, w := range flexFamily() {
				if hit := firstWith(check(w, runCase(tt, w)), "exceeds BrokerMaxWriteBytes"); hit != "" {
					knownActive[knownFlexWriteLimit] = true
					ev.KnownFinding("C18", fmt.Sprintf("%s: witness (produce v9, 8 partitions, value lengths %d x7 + %d, BrokerMaxWriteBytes 1024) still fails: %s", knownFlexWriteLimit, w.Recs[1].ValLen, w.Recs[8].ValLen, hit))
					ev.Class("known_finding_witness_still_fails")
					found = true
					break
				}
			}
			if !found {
				ev.Class("known_finding_listed_but_witness_passes_check_is_strict")
			}
		}
	})
}

// TestKnownFindingWitnesses keeps the witnesses in the evidence: a witness whose finding is
// not (or no longer) active is asserted like any generated case.
func TestKnownFindingWitnesses(t *testing.T) {
	decideKnown(t)
	var ws []*plan
	if !knownActive[knownMsgSetBatchMax] {
		ws = append(ws, witnessMsgSet())
	}
	if !knownActive[knownFlexWriteLimit] {
		ws = append(ws, flexFamily()...)
	}
	if !knownActive[knownFirstReqV13] {
		ws = append(ws, firstReqFamily()...)
	}
	ws = append(ws, boundaryFamily()...)
	for _, w := range ws {
		o := runCase(t, w)
		if o.infra != "" {
			t.Fatalf("VERIF-INFRA: witness: %s", o.infra)
		}
		if errs := check(w, o); len(errs) > 0 {
			js, _ := json.Marshal(w)
			ev.Replay("c18-witness.json", js)
			t.Fatalf("C18 violated on a recorded witness:\n  %s\nplan: %s", strings.Join(errs, "\n  "), js)
		}
		ev.Class("witness_passes")
	}
}

func TestProduceEncoding(t *testing.T) {
	decideKnown(t)
	rapid.Check(t, func(rt *rapid.T) {
		p := genPlan(rt)
		o := runCase(t, p)
		if o.infra != "" {
			// configuration rejected by the client (e.g. id too long for the write limit): not a case
			ev.Class("plan_rejected:" + strings.SplitN(o.infra, ":", 2)[0])
			rt.Skip(o.infra)
		}
		errs := check(p, o)
		ev.Class(fmt.Sprintf("mode_%d", p.Mode))
		ev.SampleIf(func() any {
			np := 0
			for _, f := range o.frames {
				if f.Key == 0 {
					np++
				}
			}
			return map[string]any{"produce_version": p.PV, "mode": p.Mode, "codecs": p.Codecs, "W": p.W, "B": p.B, "topics": len(p.Topics), "records": len(p.Recs), "produce_frames": np, "faults": p.Faults}
		})
		if len(errs) > 0 {
			js, _ := json.Marshal(p)
			rt.Fatalf("C18 violated:\n  %s\nplan: %s", strings.Join(errs, "\n  "), js)
		}
	})
}
