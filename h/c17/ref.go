package c17

import "math/big"

// Reference implementations: deliberately naive, loop based, arbitrary precision.

// refAppendUvar encodes u as an unsigned LEB128 varint (Kafka "unsigned varint").
func refAppendUvar(dst []byte, u uint64) []byte {
	for u >= 0x80 {
		dst = append(dst, byte(u)|0x80)
		u >>= 7
	}
	return append(dst, byte(u))
}

func zigzag32(i int32) uint64 { return uint64(uint32((int64(i) << 1) ^ (int64(i) >> 31))) }
func zigzag64(i int64) uint64 { return uint64(i<<1) ^ uint64(i>>63) }
func unzig(u uint64) int64    { return int64(u>>1) ^ -int64(u&1) }

// refUvar decodes an unsigned varint of at most maxBytes bytes whose value must fit
// in `bits` bits. Returns (value, n) with the semantics the kbin docs state:
// n>0 bytes consumed; (0,0) input too short; (0,-maxBytes) overlong or overflowing.
func refUvar(in []byte, maxBytes int, bits uint) (uint64, int) {
	v := new(big.Int)
	for i := 0; i < maxBytes; i++ {
		if i >= len(in) {
			return 0, 0
		}
		b := in[i]
		part := new(big.Int).Lsh(big.NewInt(int64(b&0x7f)), uint(7*i))
		v.Or(v, part)
		if b&0x80 == 0 {
			if v.BitLen() > int(bits) {
				return 0, -maxBytes
			}
			return v.Uint64(), i + 1
		}
	}
	return 0, -maxBytes // continuation bit on the last permitted byte
}
