package c17

import (
	"bytes"
	"encoding/binary"
	"fmt"
	"go/ast"
	"go/parser"
	"go/printer"
	"go/token"
	"math"
	"path/filepath"
	"testing"

	"github.com/twmb/franz-go/pkg/kbin"
	"pgregory.net/rapid"

	kbinpriv "verif/h/c17/kbinpriv"
	"verif/h/ev"
)

func TestMain(m *testing.M) { ev.Main(m, "C17") }

// prim bundles one copy of the primitives so both copies run through the same oracle.
type prim struct {
	name          string
	appendUvarint func([]byte, uint32) []byte
	appendVarint  func([]byte, int32) []byte
	appendVarlong func([]byte, int64) []byte
	uvarint       func([]byte) (uint32, int)
	varint        func([]byte) (int32, int)
	varlong       func([]byte) (int64, int)
	uvarintLen    func(uint32) int
	varintLen     func(int32) int
	varlongLen    func(int64) int
}

var prims = []prim{
	{"kbin", kbin.AppendUvarint, kbin.AppendVarint, kbin.AppendVarlong, kbin.Uvarint, kbin.Varint, kbin.Varlong, kbin.UvarintLen, kbin.VarintLen, kbin.VarlongLen},
	{"kmsg/internal/kbin", kbinpriv.AppendUvarint, kbinpriv.AppendVarint, kbinpriv.AppendVarlong, kbinpriv.Uvarint, kbinpriv.Varint, kbinpriv.Varlong, kbinpriv.UvarintLen, kbinpriv.VarintLen, kbinpriv.VarlongLen},
}

func fail(t testing.TB, name string, format string, a ...any) {
	t.Helper()
	msg := fmt.Sprintf(format, a...)
	ev.Replay("c17-"+name+".txt", msg)
	t.Fatalf("%s", msg)
}

// check32 runs every 32-bit primitive of every copy on u (as uint32 and as int32).
func check32(t testing.TB, u uint32, scratch []byte) {
	want := refAppendUvar(scratch[:0], uint64(u))
	i := int32(u)
	zz := zigzag32(i)
	for _, p := range prims {
		got := p.appendUvarint(make([]byte, 0, 8), u)
		if !bytes.Equal(got, want) {
			fail(t, "uvarint", "%s AppendUvarint(%d)=%x want %x", p.name, u, got, want)
		}
		if l := p.uvarintLen(u); l != len(want) {
			fail(t, "uvarintlen", "%s UvarintLen(%d)=%d want %d", p.name, u, l, len(want))
		}
		if v, n := p.uvarint(got); v != u || n != len(want) {
			fail(t, "uvarint-dec", "%s Uvarint(%x)=(%d,%d) want (%d,%d)", p.name, got, v, n, u, len(want))
		}
		// trailing bytes are not consumed; a prefix cut is "short"
		if len(want) > 1 {
			if v, n := p.uvarint(got[:len(got)-1]); v != 0 || n != 0 {
				fail(t, "uvarint-short", "%s Uvarint(%x)=(%d,%d) want (0,0)", p.name, got[:len(got)-1], v, n)
			}
		}
		wantz := refAppendUvar(nil, zz)
		gotz := p.appendVarint(make([]byte, 0, 8), i)
		if !bytes.Equal(gotz, wantz) {
			fail(t, "varint", "%s AppendVarint(%d)=%x want %x", p.name, i, gotz, wantz)
		}
		if l := p.varintLen(i); l != len(wantz) {
			fail(t, "varintlen", "%s VarintLen(%d)=%d want %d", p.name, i, l, len(wantz))
		}
		if v, n := p.varint(gotz); v != i || n != len(wantz) {
			fail(t, "varint-dec", "%s Varint(%x)=(%d,%d) want (%d,%d)", p.name, gotz, v, n, i, len(wantz))
		}
	}
}

// TestSweep32: thorough = every uint32, sharded; quick = boundaries + 2^20 pseudo-random.
func TestSweep32(t *testing.T) {
	scratch := make([]byte, 0, 16)
	if ev.Thorough() {
		sh, n := ev.Shard()
		per := (uint64(1) << 32) / uint64(n)
		lo, hi := uint64(sh)*per, uint64(sh+1)*per
		if sh == n-1 {
			hi = 1 << 32
		}
		for u := lo; u < hi; u++ {
			check32(t, uint32(u), scratch)
		}
		ev.Evals(int64(hi - lo))
		// distinct non-trivial = multi-byte encodings in this shard's range
		nt := int64(0)
		for u := lo; u < hi && u < lo+200000; u++ {
			if u >= 128 {
				ev.Nontrivial(fmt.Sprintf("u32:%d", u))
				nt++
			}
		}
		ev.ClassN("values_swept", int64(hi-lo))
		ev.Exhaustive(true)
		ev.Sample(map[string]any{"sweep": "every uint32 in range through all 32-bit primitives of both copies", "lo": lo, "hi": hi})
		return
	}
	ev.Exhaustive(false)
	vals := []uint32{}
	for s := uint(0); s < 32; s++ {
		for d := int64(-2); d <= 2; d++ {
			vals = append(vals, uint32(int64(1)<<s+d))
		}
	}
	x := uint64(ev.Seed())*0x9E3779B97F4A7C15 + 1
	for k := 0; k < 1<<20; k++ {
		x ^= x << 13
		x ^= x >> 7
		x ^= x << 17
		// spread over magnitudes: random width then random bits
		w := (x >> 58) % 33
		v := uint32(x>>8) & uint32((uint64(1)<<w)-1)
		vals = append(vals, v)
	}
	for _, u := range vals {
		check32(t, u, scratch)
		ev.Case(fmt.Sprintf("u32:%d", u), u >= 128)
	}
	ev.Sample(map[string]any{"value": vals[7], "uvarint": fmt.Sprintf("%x", kbin.AppendUvarint(nil, vals[7])), "varint": fmt.Sprintf("%x", kbin.AppendVarint(nil, int32(vals[7])))})
}

// TestDecoderStructures: every continuation-bit pattern x lengths x last-byte values,
// payload bits generated, against the reference decoder.
func TestDecoderStructures(t *testing.T) {
	type dec struct {
		maxBytes int
		bits     uint
	}
	run := func(t *rapid.T, d dec) {
		pat := rapid.IntRange(0, 1<<d.maxBytes-1).Draw(t, "contpattern")
		ln := rapid.IntRange(0, d.maxBytes+1).Draw(t, "len")
		in := make([]byte, ln, ln+4)
		for i := range in {
			in[i] = rapid.Byte().Draw(t, "payload") & 0x7f
			if i < d.maxBytes && pat&(1<<i) != 0 {
				in[i] |= 0x80
			}
		}
		if ln > 0 && rapid.Bool().Draw(t, "sweepLast") {
			in[min(ln, d.maxBytes)-1] = rapid.Byte().Draw(t, "last")
		}
		// sentinel beyond len to detect reads past the input through cap
		full := in[:cap(in)]
		for i := ln; i < len(full); i++ {
			full[i] = 0xff
		}
		wv, wn := refUvar(in, d.maxBytes, d.bits)
		for _, p := range prims {
			if d.maxBytes == 5 {
				v, n := p.uvarint(in)
				if uint64(v) != wv || n != wn {
					t.Fatalf("%s Uvarint(%x)=(%d,%d) want (%d,%d)", p.name, in, v, n, wv, wn)
				}
				sv, sn := p.varint(in)
				if int64(sv) != int64(int32(unzig(wv))) || sn != wn {
					t.Fatalf("%s Varint(%x)=(%d,%d) want (%d,%d)", p.name, in, sv, sn, int32(unzig(wv)), wn)
				}
				if wn > 0 { // encoding/binary agrees whenever the value fits
					bv, bn := binary.Uvarint(in)
					if bn != wn || bv != wv {
						t.Fatalf("encoding/binary disagrees with reference on %x", in)
					}
				}
			} else {
				sv, sn := p.varlong(in)
				if sv != unzig(wv) || sn != wn {
					t.Fatalf("%s Varlong(%x)=(%d,%d) want (%d,%d)", p.name, in, sv, sn, unzig(wv), wn)
				}
				bv, bn := binary.Varint(in)
				if wn > 0 && (bn != wn || bv != sv) {
					t.Fatalf("encoding/binary.Varint(%x)=(%d,%d) kbin (%d,%d)", in, bv, bn, sv, sn)
				}
			}
		}
		ev.Case(fmt.Sprintf("dec%d:%x", d.maxBytes, in), pat&1 != 0 && ln > 0)
		if wn < 0 {
			ev.Class("decoder_overflow")
		} else if wn == 0 {
			ev.Class("decoder_short")
		} else {
			ev.Class("decoder_ok")
		}
		ev.SampleIf(func() any {
			return map[string]any{"decoder_bytes": fmt.Sprintf("%x", in), "ref_value": wv, "ref_n": wn}
		})
	}
	t.Run("5byte", func(t *testing.T) { rapid.Check(t, func(t *rapid.T) { run(t, dec{5, 32}) }) })
	t.Run("10byte", func(t *testing.T) { rapid.Check(t, func(t *rapid.T) { run(t, dec{10, 64}) }) })
	// exhaustive part that is cheap: all 2^5 patterns x all last-byte values x lengths 0..6 with fixed payloads
	for pat := 0; pat < 32; pat++ {
		for ln := 0; ln <= 6; ln++ {
			for last := 0; last < 256; last++ {
				for _, fill := range []byte{0x00, 0x7f, 0x55} {
					in := make([]byte, ln)
					for i := range in {
						in[i] = fill
						if i < 5 && pat&(1<<i) != 0 {
							in[i] |= 0x80
						}
					}
					if ln > 0 {
						in[min(ln, 5)-1] = byte(last)
					}
					wv, wn := refUvar(in, 5, 32)
					for _, p := range prims {
						if v, n := p.uvarint(in); uint64(v) != wv || n != wn {
							fail(t, "dec5", "%s Uvarint(%x)=(%d,%d) want (%d,%d)", p.name, in, v, n, wv, wn)
						}
					}
					ev.Evals(1)
				}
			}
		}
	}
}

func TestVarlong(t *testing.T) {
	g := rapid.OneOf(
		rapid.Int64(),
		rapid.Custom(func(t *rapid.T) int64 {
			s := rapid.UintRange(0, 63).Draw(t, "shift")
			d := rapid.Int64Range(-2, 2).Draw(t, "delta")
			v := int64(1)<<s + d
			if rapid.Bool().Draw(t, "neg") {
				v = -v
			}
			return v
		}),
		rapid.SampledFrom([]int64{math.MinInt64, math.MaxInt64, 0, -1, 1, math.MinInt32, math.MaxInt32}),
	)
	rapid.Check(t, func(t *rapid.T) {
		i := g.Draw(t, "i")
		want := refAppendUvar(nil, zigzag64(i))
		for _, p := range prims {
			got := p.appendVarlong(make([]byte, 0, 12), i)
			if !bytes.Equal(got, want) {
				t.Fatalf("%s AppendVarlong(%d)=%x want %x", p.name, i, got, want)
			}
			if l := p.varlongLen(i); l != len(want) {
				t.Fatalf("%s VarlongLen(%d)=%d want %d", p.name, i, l, len(want))
			}
			if v, n := p.varlong(got); v != i || n != len(want) {
				t.Fatalf("%s Varlong(%x)=(%d,%d) want (%d,%d)", p.name, got, v, n, i, len(want))
			}
			if bn := binary.PutVarint(make([]byte, 12), i); bn != len(want) {
				t.Fatalf("reference length disagrees with encoding/binary for %d", i)
			}
			for cut := 0; cut < len(got); cut++ {
				if v, n := p.varlong(got[:cut]); v != 0 || n != 0 {
					t.Fatalf("%s Varlong(%x)=(%d,%d) want (0,0)", p.name, got[:cut], v, n)
				}
			}
		}
		ev.Case(fmt.Sprintf("varlong:%d", i), len(want) > 1)
		ev.SampleIf(func() any { return map[string]any{"varlong": i, "bytes": fmt.Sprintf("%x", want)} })
	})
}

func TestFixedWidthAndPrefixes(t *testing.T) {
	rapid.Check(t, func(t *rapid.T) {
		i64 := rapid.Int64().Draw(t, "i64")
		f := math.Float64frombits(rapid.Uint64().Draw(t, "f"))
		var uuid [16]byte
		copy(uuid[:], rapid.SliceOfN(rapid.Byte(), 16, 16).Draw(t, "uuid"))
		pre := rapid.SliceOfN(rapid.Byte(), 0, 3).Draw(t, "prefix")
		be := func(n int, v uint64) []byte {
			b := make([]byte, 8)
			binary.BigEndian.PutUint64(b, v)
			return append(append([]byte{}, pre...), b[8-n:]...)
		}
		eq := func(name string, got, want []byte) {
			if !bytes.Equal(got, want) {
				t.Fatalf("%s: got %x want %x", name, got, want)
			}
		}
		p := func() []byte { return append([]byte{}, pre...) }
		eq("AppendInt8", kbin.AppendInt8(p(), int8(i64)), be(1, uint64(i64)))
		eq("AppendInt16", kbin.AppendInt16(p(), int16(i64)), be(2, uint64(i64)))
		eq("AppendUint16", kbin.AppendUint16(p(), uint16(i64)), be(2, uint64(i64)))
		eq("AppendInt32", kbin.AppendInt32(p(), int32(i64)), be(4, uint64(i64)))
		eq("AppendUint32", kbin.AppendUint32(p(), uint32(i64)), be(4, uint64(i64)))
		eq("AppendInt64", kbin.AppendInt64(p(), i64), be(8, uint64(i64)))
		eq("AppendFloat64", kbin.AppendFloat64(p(), f), be(8, math.Float64bits(f)))
		eq("AppendUuid", kbin.AppendUuid(p(), uuid), append(p(), uuid[:]...))
		eq("AppendBool", kbin.AppendBool(p(), i64&1 == 1), append(p(), byte(i64&1)))
		eq("priv AppendInt32", kbinpriv.AppendInt32(p(), int32(i64)), be(4, uint64(i64)))
		eq("priv AppendInt64", kbinpriv.AppendInt64(p(), i64), be(8, uint64(i64)))
		eq("priv AppendFloat64", kbinpriv.AppendFloat64(p(), f), be(8, math.Float64bits(f)))
		eq("priv AppendUuid", kbinpriv.AppendUuid(p(), uuid), append(p(), uuid[:]...))
		eq("priv AppendInt16", kbinpriv.AppendInt16(p(), int16(i64)), be(2, uint64(i64)))

		// readers
		all := kbin.AppendInt8(nil, int8(i64))
		all = kbin.AppendInt16(all, int16(i64))
		all = kbin.AppendUint16(all, uint16(i64))
		all = kbin.AppendInt32(all, int32(i64))
		all = kbin.AppendUint32(all, uint32(i64))
		all = kbin.AppendInt64(all, i64)
		all = kbin.AppendFloat64(all, f)
		all = kbin.AppendUuid(all, uuid)
		all = kbin.AppendBool(all, true)
		r := kbin.Reader{Src: all}
		rp := kbinpriv.Reader{Src: all}
		ok := r.Int8() == int8(i64) && r.Int16() == int16(i64) && r.Uint16() == uint16(i64) && r.Int32() == int32(i64) && r.Uint32() == uint32(i64) && r.Int64() == i64 && math.Float64bits(r.Float64()) == math.Float64bits(f) && r.Uuid() == uuid && r.Bool() && r.Complete() == nil && len(r.Src) == 0
		okp := rp.Int8() == int8(i64) && rp.Int16() == int16(i64) && rp.Uint16() == uint16(i64) && rp.Int32() == int32(i64) && rp.Uint32() == uint32(i64) && rp.Int64() == i64 && math.Float64bits(rp.Float64()) == math.Float64bits(f) && rp.Uuid() == uuid && rp.Bool() && rp.Complete() == nil && len(rp.Src) == 0
		if !ok || !okp {
			t.Fatalf("fixed-width reader round trip failed for %d %v %x (pub=%v priv=%v)", i64, f, uuid, ok, okp)
		}
		ev.Case(fmt.Sprintf("fixed:%d:%x", i64, math.Float64bits(f)), i64 > 255 || i64 < -256)
	})
}

// field kinds for the prefix / reader test
type fieldKind int

const (
	kString fieldKind = iota
	kCompactString
	kNullableString
	kCompactNullableString
	kBytes
	kCompactBytes
	kNullableBytes
	kCompactNullableBytes
	kVarintBytes
	kVarintString
	kArrayLen
	kCompactArrayLen
	kNullableArrayLen
	kCompactNullableArrayLen
	kVarintArrayLen
	kInt8
	kInt16
	kInt32
	kInt64
	kUvarint
	kVarint
	kVarlong
	kUuid
	kBool
	kFloat64
	kUint16
	kUint32
	nKinds
)

var kindNames = [...]string{"String", "CompactString", "NullableString", "CompactNullableString", "Bytes", "CompactBytes", "NullableBytes", "CompactNullableBytes", "VarintBytes", "VarintString", "ArrayLen", "CompactArrayLen", "NullableArrayLen", "CompactNullableArrayLen", "VarintArrayLen", "Int8", "Int16", "Int32", "Int64", "Uvarint", "Varint", "Varlong", "Uuid", "Bool", "Float64", "Uint16", "Uint32"}

// readerAPI abstracts over the two Reader copies.
type readerAPI interface {
	Bool() bool
	Int8() int8
	Int16() int16
	Uint16() uint16
	Int32() int32
	Uint32() uint32
	Int64() int64
	Float64() float64
	Uuid() [16]byte
	Varint() int32
	Varlong() int64
	Uvarint() uint32
	String() string
	UnsafeString() string
	CompactString() string
	UnsafeCompactString() string
	NullableString() *string
	UnsafeNullableString() *string
	CompactNullableString() *string
	UnsafeCompactNullableString() *string
	Bytes() []byte
	CompactBytes() []byte
	NullableBytes() []byte
	CompactNullableBytes() []byte
	VarintBytes() []byte
	VarintString() string
	UnsafeVarintString() string
	ArrayLen() int32
	CompactArrayLen() int32
	VarintArrayLen() int32
	Complete() error
	Ok() bool
}

type field struct {
	kind   fieldKind
	data   []byte // payload for string/bytes kinds
	null   bool
	num    int64
	unsafe bool
}

func encField(ref bool, pub bool, dst []byte, f field) []byte {
	// ref=true: reference encoding with encoding/binary + refAppendUvar
	s := string(f.data)
	var sp *string
	if !f.null {
		sp = &s
	}
	var bp []byte
	if !f.null {
		bp = append([]byte{}, f.data...)
		if bp == nil {
			bp = []byte{}
		}
	}
	be := func(n int, v uint64) []byte {
		b := make([]byte, 8)
		binary.BigEndian.PutUint64(b, v)
		return append(dst, b[8-n:]...)
	}
	if ref {
		switch f.kind {
		case kString:
			return append(be(2, uint64(len(f.data))), f.data...)
		case kCompactString, kCompactBytes:
			return append(refAppendUvar(dst, uint64(len(f.data))+1), f.data...)
		case kNullableString:
			if f.null {
				return be(2, 0xffff)
			}
			return append(be(2, uint64(len(f.data))), f.data...)
		case kCompactNullableString, kCompactNullableBytes:
			if f.null {
				return append(dst, 0)
			}
			return append(refAppendUvar(dst, uint64(len(f.data))+1), f.data...)
		case kBytes:
			return append(be(4, uint64(len(f.data))), f.data...)
		case kNullableBytes:
			if f.null {
				return be(4, 0xffffffff)
			}
			return append(be(4, uint64(len(f.data))), f.data...)
		case kVarintBytes:
			if f.null {
				return refAppendUvar(dst, zigzag32(-1))
			}
			return append(refAppendUvar(dst, zigzag32(int32(len(f.data)))), f.data...)
		case kVarintString:
			return append(refAppendUvar(dst, zigzag32(int32(len(f.data)))), f.data...)
		case kArrayLen:
			return be(4, uint64(f.num))
		case kCompactArrayLen:
			return refAppendUvar(dst, uint64(f.num)+1)
		case kNullableArrayLen:
			if f.null {
				return be(4, 0xffffffff)
			}
			return be(4, uint64(f.num))
		case kCompactNullableArrayLen:
			if f.null {
				return append(dst, 0)
			}
			return refAppendUvar(dst, uint64(f.num)+1)
		case kVarintArrayLen:
			return refAppendUvar(dst, zigzag32(int32(f.num)))
		case kInt8:
			return be(1, uint64(f.num))
		case kInt16, kUint16:
			return be(2, uint64(f.num))
		case kInt32, kUint32:
			return be(4, uint64(f.num))
		case kInt64:
			return be(8, uint64(f.num))
		case kFloat64:
			return be(8, uint64(f.num))
		case kUvarint:
			return refAppendUvar(dst, uint64(uint32(f.num)))
		case kVarint:
			return refAppendUvar(dst, zigzag32(int32(f.num)))
		case kVarlong:
			return refAppendUvar(dst, zigzag64(f.num))
		case kUuid:
			var u [16]byte
			copy(u[:], f.data)
			return append(dst, u[:]...)
		case kBool:
			return append(dst, byte(f.num&1))
		}
		panic("kind")
	}
	var u [16]byte
	copy(u[:], f.data)
	if pub {
		switch f.kind {
		case kString:
			return kbin.AppendString(dst, s)
		case kCompactString:
			return kbin.AppendCompactString(dst, s)
		case kNullableString:
			return kbin.AppendNullableString(dst, sp)
		case kCompactNullableString:
			return kbin.AppendCompactNullableString(dst, sp)
		case kBytes:
			return kbin.AppendBytes(dst, f.data)
		case kCompactBytes:
			return kbin.AppendCompactBytes(dst, f.data)
		case kNullableBytes:
			return kbin.AppendNullableBytes(dst, bp)
		case kCompactNullableBytes:
			return kbin.AppendCompactNullableBytes(dst, bp)
		case kVarintBytes:
			return kbin.AppendVarintBytes(dst, bp)
		case kVarintString:
			return kbin.AppendVarintString(dst, s)
		case kArrayLen:
			return kbin.AppendArrayLen(dst, int(f.num))
		case kCompactArrayLen:
			return kbin.AppendCompactArrayLen(dst, int(f.num))
		case kNullableArrayLen:
			return kbin.AppendNullableArrayLen(dst, int(f.num), f.null)
		case kCompactNullableArrayLen:
			return kbin.AppendCompactNullableArrayLen(dst, int(f.num), f.null)
		case kVarintArrayLen:
			return kbin.AppendVarint(dst, int32(f.num))
		case kInt8:
			return kbin.AppendInt8(dst, int8(f.num))
		case kInt16:
			return kbin.AppendInt16(dst, int16(f.num))
		case kUint16:
			return kbin.AppendUint16(dst, uint16(f.num))
		case kInt32:
			return kbin.AppendInt32(dst, int32(f.num))
		case kUint32:
			return kbin.AppendUint32(dst, uint32(f.num))
		case kInt64:
			return kbin.AppendInt64(dst, f.num)
		case kFloat64:
			return kbin.AppendFloat64(dst, math.Float64frombits(uint64(f.num)))
		case kUvarint:
			return kbin.AppendUvarint(dst, uint32(f.num))
		case kVarint:
			return kbin.AppendVarint(dst, int32(f.num))
		case kVarlong:
			return kbin.AppendVarlong(dst, f.num)
		case kUuid:
			return kbin.AppendUuid(dst, u)
		case kBool:
			return kbin.AppendBool(dst, f.num&1 == 1)
		}
		panic("kind")
	}
	switch f.kind {
	case kString:
		return kbinpriv.AppendString(dst, s)
	case kCompactString:
		return kbinpriv.AppendCompactString(dst, s)
	case kNullableString:
		return kbinpriv.AppendNullableString(dst, sp)
	case kCompactNullableString:
		return kbinpriv.AppendCompactNullableString(dst, sp)
	case kBytes:
		return kbinpriv.AppendBytes(dst, f.data)
	case kCompactBytes:
		return kbinpriv.AppendCompactBytes(dst, f.data)
	case kNullableBytes:
		return kbinpriv.AppendNullableBytes(dst, bp)
	case kCompactNullableBytes:
		return kbinpriv.AppendCompactNullableBytes(dst, bp)
	case kVarintBytes:
		return kbinpriv.AppendVarintBytes(dst, bp)
	case kVarintString:
		return kbinpriv.AppendVarintString(dst, s)
	case kArrayLen:
		return kbinpriv.AppendArrayLen(dst, int(f.num))
	case kCompactArrayLen:
		return kbinpriv.AppendCompactArrayLen(dst, int(f.num))
	case kNullableArrayLen:
		return kbinpriv.AppendNullableArrayLen(dst, int(f.num), f.null)
	case kCompactNullableArrayLen:
		return kbinpriv.AppendCompactNullableArrayLen(dst, int(f.num), f.null)
	case kVarintArrayLen:
		return kbinpriv.AppendVarint(dst, int32(f.num))
	case kInt8:
		return kbinpriv.AppendInt8(dst, int8(f.num))
	case kInt16:
		return kbinpriv.AppendInt16(dst, int16(f.num))
	case kUint16:
		return kbinpriv.AppendUint16(dst, uint16(f.num))
	case kInt32:
		return kbinpriv.AppendInt32(dst, int32(f.num))
	case kUint32:
		return kbinpriv.AppendUint32(dst, uint32(f.num))
	case kInt64:
		return kbinpriv.AppendInt64(dst, f.num)
	case kFloat64:
		return kbinpriv.AppendFloat64(dst, math.Float64frombits(uint64(f.num)))
	case kUvarint:
		return kbinpriv.AppendUvarint(dst, uint32(f.num))
	case kVarint:
		return kbinpriv.AppendVarint(dst, int32(f.num))
	case kVarlong:
		return kbinpriv.AppendVarlong(dst, f.num)
	case kUuid:
		return kbinpriv.AppendUuid(dst, u)
	case kBool:
		return kbinpriv.AppendBool(dst, f.num&1 == 1)
	}
	panic("kind")
}

// readField reads f's kind from r and reports whether the decoded value equals f.
// zero reports whether the returned value is the kind's zero value.
func readField(r readerAPI, f field) (equal bool, zero bool, span []byte) {
	s := string(f.data)
	switch f.kind {
	case kString:
		var g string
		if f.unsafe {
			g = r.UnsafeString()
		} else {
			g = r.String()
		}
		return g == s, g == "", []byte(g)
	case kCompactString:
		var g string
		if f.unsafe {
			g = r.UnsafeCompactString()
		} else {
			g = r.CompactString()
		}
		return g == s, g == "", []byte(g)
	case kNullableString, kCompactNullableString:
		var g *string
		switch {
		case f.kind == kNullableString && f.unsafe:
			g = r.UnsafeNullableString()
		case f.kind == kNullableString:
			g = r.NullableString()
		case f.unsafe:
			g = r.UnsafeCompactNullableString()
		default:
			g = r.CompactNullableString()
		}
		if g == nil {
			return f.null, true, nil
		}
		// an invalidated reader may hand back a pointer to "" (no data exposed)
		return !f.null && *g == s, *g == "", []byte(*g)
	case kBytes, kCompactBytes:
		var g []byte
		if f.kind == kBytes {
			g = r.Bytes()
		} else {
			g = r.CompactBytes()
		}
		return bytes.Equal(g, f.data), len(g) == 0, g
	case kNullableBytes, kCompactNullableBytes, kVarintBytes:
		var g []byte
		switch f.kind {
		case kNullableBytes:
			g = r.NullableBytes()
		case kCompactNullableBytes:
			g = r.CompactNullableBytes()
		default:
			g = r.VarintBytes()
		}
		if g == nil {
			return f.null, true, nil
		}
		return !f.null && bytes.Equal(g, f.data), len(g) == 0, g
	case kVarintString:
		var g string
		if f.unsafe {
			g = r.UnsafeVarintString()
		} else {
			g = r.VarintString()
		}
		return g == s, g == "", []byte(g)
	case kArrayLen, kNullableArrayLen:
		g := r.ArrayLen()
		if f.null {
			return g == -1, g <= 0, nil
		}
		return int64(g) == f.num, g <= 0, nil
	case kCompactArrayLen, kCompactNullableArrayLen:
		// on an invalidated reader the compact form yields -1 ("null array"): a
		// default that claims no elements; only a positive count would be wrong
		g := r.CompactArrayLen()
		if f.null {
			return g == -1, g <= 0, nil
		}
		return int64(g) == f.num, g <= 0, nil
	case kVarintArrayLen:
		g := r.VarintArrayLen()
		return int64(g) == f.num, g == 0, nil
	case kInt8:
		g := r.Int8()
		return g == int8(f.num), g == 0, nil
	case kInt16:
		g := r.Int16()
		return g == int16(f.num), g == 0, nil
	case kUint16:
		g := r.Uint16()
		return g == uint16(f.num), g == 0, nil
	case kInt32:
		g := r.Int32()
		return g == int32(f.num), g == 0, nil
	case kUint32:
		g := r.Uint32()
		return g == uint32(f.num), g == 0, nil
	case kInt64:
		g := r.Int64()
		return g == f.num, g == 0, nil
	case kFloat64:
		g := math.Float64bits(r.Float64())
		return g == uint64(f.num), g == 0, nil
	case kUvarint:
		g := r.Uvarint()
		return g == uint32(f.num), g == 0, nil
	case kVarint:
		g := r.Varint()
		return g == int32(f.num), g == 0, nil
	case kVarlong:
		g := r.Varlong()
		return g == f.num, g == 0, nil
	case kUuid:
		g := r.Uuid()
		var u [16]byte
		copy(u[:], f.data)
		return g == u, g == [16]byte{}, nil
	case kBool:
		g := r.Bool()
		return g == (f.num&1 == 1), !g, nil
	}
	panic("kind")
}

func genField(t *rapid.T) field {
	k := fieldKind(rapid.IntRange(0, int(nKinds)-1).Draw(t, "kind"))
	f := field{kind: k, unsafe: rapid.Bool().Draw(t, "unsafe")}
	lenGen := rapid.OneOf(rapid.IntRange(0, 20), rapid.SampledFrom([]int{126, 127, 128, 129, 16382, 16383, 16384, 16385, 32767}))
	switch k {
	case kString, kCompactString, kNullableString, kCompactNullableString, kBytes, kCompactBytes, kNullableBytes, kCompactNullableBytes, kVarintBytes, kVarintString:
		n := lenGen.Draw(t, "len")
		f.data = make([]byte, n)
		fill := rapid.Byte().Draw(t, "fill")
		for i := range f.data {
			f.data[i] = fill + byte(i)
		}
		if k == kNullableString || k == kCompactNullableString || k == kNullableBytes || k == kCompactNullableBytes || k == kVarintBytes {
			f.null = rapid.IntRange(0, 4).Draw(t, "null") == 0
			if f.null {
				f.data = nil
			}
		}
	case kArrayLen, kCompactArrayLen, kNullableArrayLen, kCompactNullableArrayLen, kVarintArrayLen:
		f.num = int64(lenGen.Draw(t, "alen"))
		if k == kNullableArrayLen || k == kCompactNullableArrayLen {
			f.null = rapid.IntRange(0, 4).Draw(t, "null") == 0
		}
	case kUuid:
		f.data = rapid.SliceOfN(rapid.Byte(), 16, 16).Draw(t, "uuid")
	default:
		f.num = rapid.OneOf(rapid.Int64(), rapid.Int64Range(-300, 300)).Draw(t, "num")
	}
	return f
}

// TestPrefixesAndReaders: encoders of every length-prefixed kind equal the reference
// bytes; the Reader recovers the value; on every truncation the Reader is invalidated,
// returns the zero value, and never exposes bytes outside the input.
func TestPrefixesAndReaders(t *testing.T) {
	rapid.Check(t, func(t *rapid.T) {
		f := genField(t)
		want := encField(true, false, nil, f)
		for _, pub := range []bool{true, false} {
			got := encField(false, pub, make([]byte, 0, 4), f)
			if !bytes.Equal(got, want) {
				t.Fatalf("Append%s (pub=%v) null=%v len=%d num=%d: got %x want %x", kindNames[f.kind], pub, f.null, len(f.data), f.num, trunc(got), trunc(want))
			}
		}
		isArr := f.kind == kArrayLen || f.kind == kCompactArrayLen || f.kind == kNullableArrayLen || f.kind == kCompactNullableArrayLen || f.kind == kVarintArrayLen
		// full read; array lengths require that many bytes to follow (documented guard)
		tail := 0
		if isArr && !f.null {
			tail = int(f.num)
		}
		buf := make([]byte, len(want)+tail, len(want)+tail+8)
		copy(buf, want)
		for i := len(buf); i < cap(buf); i++ {
			buf[:cap(buf)][i] = 0xEE
		}
		for _, pub := range []bool{true, false} {
			var r readerAPI
			var src *[]byte
			if pub {
				rr := &kbin.Reader{Src: buf}
				r, src = rr, &rr.Src
			} else {
				rr := &kbinpriv.Reader{Src: buf}
				r, src = rr, &rr.Src
			}
			eq, _, _ := readField(r, f)
			if !eq || r.Complete() != nil || !r.Ok() || len(*src) != tail {
				t.Fatalf("Reader.%s (pub=%v) did not recover value: eq=%v complete=%v rest=%d want rest %d (enc %x)", kindNames[f.kind], pub, eq, r.Complete(), len(*src), tail, trunc(want))
			}
		}
		// every truncation (sampled for long payloads)
		cuts := []int{}
		if len(want)+tail <= 40 {
			for c := 0; c < len(want)+tail; c++ {
				cuts = append(cuts, c)
			}
		} else {
			cuts = append(cuts, 0, 1, 2, 3, len(want)+tail-1, len(want)+tail-2, rapid.IntRange(0, len(want)+tail-1).Draw(t, "cut"))
		}
		for _, c := range cuts {
			if c < 0 {
				continue
			}
			in := buf[: c : c+1] // one byte of hidden capacity: buf[c] is real data the reader must not see
			for _, pub := range []bool{true, false} {
				var r readerAPI
				var src *[]byte
				if pub {
					rr := &kbin.Reader{Src: in}
					r, src = rr, &rr.Src
				} else {
					rr := &kbinpriv.Reader{Src: in}
					r, src = rr, &rr.Src
				}
				_, zero, span := readField(r, f)
				// a cut inside the trailing "array elements" region leaves the prefix readable but the guard must fire
				if r.Complete() == nil || r.Ok() {
					t.Fatalf("Reader.%s (pub=%v) accepted input truncated to %d of %d bytes (enc %x)", kindNames[f.kind], pub, c, len(want)+tail, trunc(want))
				}
				if !zero || len(span) != 0 {
					t.Fatalf("Reader.%s (pub=%v) returned non-zero value on truncated input (cut %d, enc %x)", kindNames[f.kind], pub, c, trunc(want))
				}
				if *src != nil {
					t.Fatalf("Reader.%s (pub=%v) left Src non-nil after invalidation", kindNames[f.kind], pub)
				}
				// once invalid, everything returns defaults
				if r.Int32() != 0 || r.Uvarint() != 0 || r.String() != "" || r.NullableBytes() != nil {
					t.Fatalf("invalidated Reader returned non-default")
				}
			}
		}
		ev.Case(fmt.Sprintf("field:%s:%v:%d:%d", kindNames[f.kind], f.null, len(f.data), f.num), len(want) > 2)
		ev.Class("reader_" + kindNames[f.kind])
		ev.SampleIf(func() any {
			return map[string]any{"reader_kind": kindNames[f.kind], "null": f.null, "payload_len": len(f.data), "num": f.num, "encoding": fmt.Sprintf("%x", trunc(want)), "truncations_checked": len(cuts)}
		})
	})
}

func trunc(b []byte) []byte {
	if len(b) > 24 {
		return b[:24]
	}
	return b
}

// TestReaderArbitrary: arbitrary bytes + arbitrary method sequences never panic, never
// return data outside the input, and the reader only ever shrinks.
func TestReaderArbitrary(t *testing.T) {
	rapid.Check(t, func(t *rapid.T) {
		in := rapid.SliceOfN(rapid.Byte(), 0, 24).Draw(t, "in")
		ops := rapid.SliceOfN(rapid.IntRange(0, int(nKinds)-1), 1, 8).Draw(t, "ops")
		uns := rapid.Bool().Draw(t, "unsafe")
		for _, pub := range []bool{true, false} {
			buf := append(make([]byte, 0, len(in)+4), in...)
			full := buf[:cap(buf)]
			for i := len(in); i < len(full); i++ {
				full[i] = 0xEE
			}
			var r readerAPI
			var src *[]byte
			if pub {
				rr := &kbin.Reader{Src: buf}
				r, src = rr, &rr.Src
			} else {
				rr := &kbinpriv.Reader{Src: buf}
				r, src = rr, &rr.Src
			}
			prev := len(buf)
			for _, k := range ops {
				_, _, span := readField(r, field{kind: fieldKind(k), unsafe: uns})
				if len(*src) > prev {
					t.Fatalf("reader grew")
				}
				if !r.Ok() && *src != nil {
					t.Fatalf("invalid reader with non-nil Src")
				}
				consumed := len(buf) - len(*src)
				if r.Ok() && len(span) > 0 {
					// span must be the bytes just before the new position
					if !bytes.Equal(span, buf[consumed-len(span):consumed]) {
						t.Fatalf("span %x is not input[%d:%d]", span, consumed-len(span), consumed)
					}
				}
				prev = len(*src)
			}
		}
		ev.Case(fmt.Sprintf("arb:%x:%v", in, ops), len(in) > 2)
	})
}

// TestCopiesIdentical: comment-stripped AST of the two files is identical.
func TestCopiesIdentical(t *testing.T) {
	render := func(path string) string {
		fset := token.NewFileSet()
		f, err := parser.ParseFile(fset, path, nil, 0) // comments dropped
		if err != nil {
			t.Skipf("VERIF-INFRA: cannot parse %s: %v", path, err)
		}
		f.Doc = nil
		var b bytes.Buffer
		for _, d := range f.Decls {
			if fd, ok := d.(*ast.FuncDecl); ok {
				fd.Doc = nil
			}
			if gd, ok := d.(*ast.GenDecl); ok {
				gd.Doc = nil
			}
			printer.Fprint(&b, token.NewFileSet(), d)
			b.WriteString("\n")
		}
		return b.String()
	}
	a := render(filepath.Join(ev.Repo(), "pkg/kbin/primitives.go"))
	b := render(filepath.Join(ev.Repo(), "pkg/kmsg/internal/kbin/primitives.go"))
	ev.Case("ast-compare", true)
	if a != b {
		la, lb := bytes.Split([]byte(a), []byte("\n")), bytes.Split([]byte(b), []byte("\n"))
		for i := 0; i < len(la) && i < len(lb); i++ {
			if !bytes.Equal(la[i], lb[i]) {
				fail(t, "copies", "pkg/kbin and pkg/kmsg/internal/kbin differ (comment-stripped) near:\n  %s\n  %s", la[i], lb[i])
			}
		}
		fail(t, "copies", "pkg/kbin and pkg/kmsg/internal/kbin differ in length (comment-stripped)")
	}
}
