package c40

import (
	"context"
	"encoding/binary"
	"fmt"
	"testing"
	"time"

	"github.com/twmb/franz-go/pkg/kgo"
	"github.com/twmb/franz-go/pkg/kmsg"
	"pgregory.net/rapid"

	"verif/h/bubble"
	"verif/h/ev"
)

func TestMain(m *testing.M) { ev.Main(m, "C40") }

type plan struct {
	Brokers  int
	Batches  []int   // records per produced batch (timestamps increase by 1000 ms per record)
	Start    int64   // DeleteRecords to this offset (0 = none)
	OpenTxn  int     // records of a transaction left open at the tail (0 = none)
	RC       bool
	Kind     string  // at | start | end | milli | committed
	X        int64   // At(x)
	Rel      int64   // Relative
	Milli    int64   // AfterMilli index: timestamp of record Milli (+Frac ms), may be past the end
	Frac     int64
	Epoch    bool    // WithEpoch(current)
	Via      string  // reset | startoffset | partitions
	Commit   int64   // committed offset for kind committed
	ResetTo  string  // for out-of-range exact offsets: the ConsumeResetOffset in effect (start | end)
}

const base = int64(1_700_000_000_000)

func genPlan(t *rapid.T) plan {
	p := plan{Brokers: rapid.IntRange(1, 2).Draw(t, "brokers")}
	nb := rapid.IntRange(0, 5).Draw(t, "nbatches")
	total := 0
	for i := 0; i < nb; i++ {
		n := rapid.IntRange(1, 4).Draw(t, "batch")
		p.Batches = append(p.Batches, n)
		total += n
	}
	if total > 0 && rapid.Bool().Draw(t, "delete") {
		p.Start = int64(rapid.IntRange(0, total).Draw(t, "start"))
	}
	if rapid.IntRange(0, 2).Draw(t, "opentxn") == 0 {
		p.OpenTxn = rapid.IntRange(1, 3).Draw(t, "ntxn")
	}
	p.RC = rapid.Bool().Draw(t, "rc")
	p.Kind = rapid.SampledFrom([]string{"at", "at", "start", "end", "milli", "committed"}).Draw(t, "kind")
	p.X = int64(rapid.IntRange(-3, total+p.OpenTxn+3).Draw(t, "x"))
	p.Rel = int64(rapid.IntRange(-4, 4).Draw(t, "rel"))
	p.Milli = int64(rapid.IntRange(-1, total+1).Draw(t, "milli"))
	if p.OpenTxn > 0 && rapid.Bool().Draw(t, "milli-in-open-txn") {
		p.Milli = int64(rapid.IntRange(max(total-1, 0), total+p.OpenTxn).Draw(t, "milli2"))
	}
	p.Frac = int64(rapid.SampledFrom([]int{0, 0, 1, 500, 999}).Draw(t, "frac"))
	p.Epoch = rapid.IntRange(0, 3).Draw(t, "epoch") == 0
	p.Via = rapid.SampledFrom([]string{"reset", "startoffset", "partitions"}).Draw(t, "via")
	if p.Kind == "committed" {
		p.Via = "reset"
		p.Commit = int64(rapid.IntRange(int(p.Start), total).Draw(t, "commit"))
	}
	p.ResetTo = rapid.SampledFrom([]string{"start", "end"}).Draw(t, "resetto")
	return p
}

func TestStartOffsets(t *testing.T) {
	rapid.Check(t, func(rt *rapid.T) {
		p := genPlan(rt)
		asserted, class := false, ""
		bubble.Run(t, rt, func(e *bubble.Env) {
			e.StartCluster(bubble.ClusterOpts{Brokers: p.Brokers, Topics: map[string]int32{"s": 1}})
			ctx := context.Background()
			prod := e.NewClient(kgo.RecordPartitioner(kgo.ManualPartitioner()), kgo.ProducerLinger(0), kgo.ProducerBatchCompression(kgo.NoCompression()))
			var nextID int64
			mk := func(off int64) *kgo.Record {
				nextID++
				v := make([]byte, 8)
				binary.BigEndian.PutUint64(v, uint64(nextID))
				return &kgo.Record{Topic: "s", Partition: 0, Value: v, Timestamp: time.UnixMilli(base + off*1000)}
			}
			total := int64(0)
			for _, n := range p.Batches {
				var recs []*kgo.Record
				for i := 0; i < n; i++ {
					recs = append(recs, mk(total+int64(i)))
				}
				if err := prod.ProduceSync(ctx, recs...).FirstErr(); err != nil {
					panic("VERIF-INFRA: produce: " + err.Error())
				}
				total += int64(n)
			}
			if p.Start > 0 {
				req := kmsg.NewPtrDeleteRecordsRequest()
				rtp := kmsg.NewDeleteRecordsRequestTopic()
				rtp.Topic = "s"
				rp := kmsg.NewDeleteRecordsRequestTopicPartition()
				rp.Partition, rp.Offset = 0, p.Start
				rtp.Partitions = append(rtp.Partitions, rp)
				req.Topics = append(req.Topics, rtp)
				req.TimeoutMillis = 5000
				resp, err := req.RequestWith(ctx, prod)
				if err != nil || len(resp.Topics) != 1 || resp.Topics[0].Partitions[0].ErrorCode != 0 {
					panic(fmt.Sprintf("VERIF-INFRA: DeleteRecords: %v %+v", err, resp))
				}
			}
			var tx *kgo.Client
			if p.OpenTxn > 0 {
				tx = e.NewClient(kgo.TransactionalID("t40"), kgo.TransactionTimeout(10*time.Minute), kgo.RecordPartitioner(kgo.ManualPartitioner()), kgo.ProducerLinger(0), kgo.ProducerBatchCompression(kgo.NoCompression()))
				if err := tx.BeginTransaction(); err != nil {
					panic("VERIF-INFRA: begin: " + err.Error())
				}
				var recs []*kgo.Record
				for i := 0; i < p.OpenTxn; i++ {
					recs = append(recs, mk(total+int64(i)))
				}
				if err := tx.ProduceSync(ctx, recs...).FirstErr(); err != nil {
					panic("VERIF-INFRA: txn produce: " + err.Error())
				}
			}
			hwm := total + int64(p.OpenTxn)
			end := hwm
			if p.RC && p.OpenTxn > 0 {
				end = total // last stable offset
			}
			start := p.Start
			clamp := func(x int64) int64 {
				if x < start {
					return start
				}
				if x > end {
					return end
				}
				return x
			}
			// ---- the Offset under test and its documented resolution ----
			o := kgo.NewOffset()
			var want int64
			assert := true
			switch p.Kind {
			case "at":
				o = o.At(p.X).Relative(p.Rel)
				switch {
				case p.X == -2 || p.X < -2: // At(<= -2) is AtStart
					want = clamp(start + max(p.Rel, 0))
					if p.Rel < 0 {
						want = start
					}
				case p.X == -1: // At(-1) is AtEnd
					want = clamp(end + min(p.Rel, 0))
					if p.Rel > 0 {
						want = end
					}
				default:
					want = clamp(p.X + p.Rel)
					raw := p.X + p.Rel
					if raw > end && raw <= hwm {
						// read_committed with an open transaction: an exact offset between the last
						// stable offset and the high watermark is a valid fetch position for the
						// broker, and the client uses exact offsets as given. Whether the property's
						// 'end is the last stable offset' is meant to pull such an offset back is not
						// clear from its text: executed and tallied, not asserted.
						assert = false
						class = "exact-between-lso-and-hwm-not-asserted"
					} else if raw > hwm && p.Epoch {
						// WithEpoch: truncation detection finds the log end below the requested
						// offset, reports data loss and continues from the log end (high watermark)
						class = "exact-above-end-with-epoch"
						want = hwm
						if hwm != end {
							assert = false
							class = "exact-above-end-with-epoch-open-txn-not-asserted"
						}
					} else if raw < start || raw > end {
						// An exact offset outside the log is resolved by the first fetch's
						// OFFSET_OUT_OF_RANGE -> ConsumeResetOffset path (documented on
						// ConsumeResetOffset). That equals the clamp only if the reset offset
						// resolves to the same boundary; otherwise executed but not asserted.
						class = "exact-out-of-range"
						if !(raw < start && p.ResetTo == "start" || raw > end && p.ResetTo == "end") {
							assert = false
							class = "exact-out-of-range-not-asserted"
						}
						if p.Via != "partitions" {
							assert = assert && true
						}
					}
				}
			case "start":
				n := max(p.Rel, 0)
				o = o.AtStart().Relative(n)
				want = min(start+n, end)
			case "end":
				n := min(p.Rel, 0)
				o = o.AtEnd().Relative(n)
				want = max(end+n, start)
			case "milli":
				ts := base + p.Milli*1000 + p.Frac
				o = o.AfterMilli(ts)
				want = end
				for off := start; off < end; off++ {
					if base+off*1000 >= ts {
						want = off
						break
					}
				}
			case "committed":
				o = o.AtCommitted()
				want = p.Commit
			}
			if p.Epoch && p.Kind != "milli" && p.Kind != "committed" {
				o = o.WithEpoch(0)
			}
			opts := []kgo.Opt{kgo.FetchMaxWait(200 * time.Millisecond)}
			if p.RC {
				opts = append(opts, kgo.FetchIsolationLevel(kgo.ReadCommitted()))
			}
			reset := kgo.NewOffset().AtStart()
			if p.ResetTo == "end" {
				reset = kgo.NewOffset().AtEnd()
			}
			switch p.Via {
			case "reset":
				opts = append(opts, kgo.ConsumeTopics("s"), kgo.ConsumeResetOffset(o))
			case "startoffset":
				opts = append(opts, kgo.ConsumeTopics("s"), kgo.ConsumeStartOffset(o), kgo.ConsumeResetOffset(reset))
			case "partitions":
				opts = append(opts, kgo.ConsumePartitions(map[string]map[int32]kgo.Offset{"s": {0: o}}), kgo.ConsumeResetOffset(reset))
			}
			if p.Via == "reset" && class != "" {
				// the offset under test IS the reset offset: out-of-range exact offsets would loop
				assert = false
				class = "exact-out-of-range-as-reset-offset-not-asserted"
			}
			if p.Kind == "committed" {
				opts = append(opts, kgo.ConsumerGroup("g40"), kgo.DisableAutoCommit())
				// commit first with a throwaway member
				adm := e.NewClient(kgo.ConsumerGroup("g40"), kgo.ConsumeTopics("s"), kgo.DisableAutoCommit(), kgo.ConsumeResetOffset(kgo.NewOffset().AtEnd()))
				pc, c1 := context.WithTimeout(ctx, 5*time.Second)
				adm.PollFetches(pc)
				c1()
				var cerr error
				adm.CommitOffsetsSync(ctx, map[string]map[int32]kgo.EpochOffset{"s": {0: {Epoch: -1, Offset: p.Commit}}}, func(_ *kgo.Client, _ *kmsg.OffsetCommitRequest, resp *kmsg.OffsetCommitResponse, err error) {
					cerr = err
					if err == nil {
						for _, t := range resp.Topics {
							for _, pp := range t.Partitions {
								if pp.ErrorCode != 0 {
									cerr = fmt.Errorf("code %d", pp.ErrorCode)
								}
							}
						}
					}
				})
				if cerr != nil {
					panic("VERIF-INFRA: commit: " + cerr.Error())
				}
				adm.Close()
				if p.Commit > end { // a commit beyond the visible end is out of range: reset semantics, not asserted
					assert = false
					class = "committed-beyond-end-not-asserted"
				}
			}
			cl := e.NewClient(opts...)
			// let the position resolve, then append so that 'end' positions have a first record
			pc, c2 := context.WithTimeout(ctx, 3*time.Second)
			first := cl.PollFetches(pc)
			c2()
			var got int64 = -1
			take := func(fs kgo.Fetches) {
				fs.EachRecord(func(r *kgo.Record) {
					if got < 0 && !r.Attrs.IsControl() {
						got = r.Offset
					}
				})
			}
			take(first)
			if got < 0 {
				if tx != nil {
					if err := tx.EndTransaction(ctx, kgo.TryCommit); err != nil {
						panic("VERIF-INFRA: EndTransaction: " + err.Error())
					}
				}
				var recs []*kgo.Record
				for i := 0; i < 3; i++ {
					recs = append(recs, mk(hwm+1+int64(i)))
				}
				if err := prod.ProduceSync(ctx, recs...).FirstErr(); err != nil {
					panic("VERIF-INFRA: produce tail: " + err.Error())
				}
				for dl := time.Now().Add(2 * time.Minute); got < 0 && time.Now().Before(dl); {
					pc, c3 := context.WithTimeout(ctx, 2*time.Second)
					take(cl.PollFetches(pc))
					c3()
				}
			}
			// a commit marker may sit exactly at the resolved position (end of an open transaction
			// that we committed afterwards): the first DATA record is then the next offset
			if assert {
				ok := got == want
				if !ok && tx != nil && want == hwm && got == hwm+1 {
					ok = true // offset hwm holds the commit marker written by EndTransaction
				}
				if !ok {
					rt.Fatalf("first returned record is at offset %d, documented resolution is %d\nplan: %+v\nlog: start=%d stable-end=%d hwm=%d, offset under test delivered via %s", got, want, p, start, end, hwm, p.Via)
				}
				asserted = true
			}
		})
		if class == "" {
			class = "in-range"
		}
		nt := asserted && (p.Start > 0 || p.OpenTxn > 0 || p.Kind == "milli")
		ev.Case(fmt.Sprintf("%+v", p), nt)
		ev.Class("kind:" + p.Kind)
		ev.Class("via:" + p.Via)
		ev.Class(class)
		if asserted {
			ev.Class("asserted")
		}
		if nt {
			ev.SampleIf(func() any { return map[string]any{"plan": fmt.Sprintf("%+v", p)} })
		}
	})
}
