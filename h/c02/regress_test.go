package c02

import (
	"context"
	"fmt"
	"testing"
	"time"

	"github.com/twmb/franz-go/pkg/kerr"
	"github.com/twmb/franz-go/pkg/kgo"
	"github.com/twmb/franz-go/pkg/kmsg"

	"verif/h/bubble"
	"verif/h/ev"
)

// Plain regression checks for histories the generated search found (no generator involved).

// TestRegressLostResponseThenRetriableErrorAtRetryLimit replays the minimal history behind
// the finding "fixed: property=C02 ... lost produce response, then a retriable error at the
// retry limit": attempt 1 is appended by the broker but its response is cut off, attempt 2
// is answered NOT_LEADER_FOR_PARTITION, and RecordRetries(1) is then exhausted. The record
// is in the log, so its promise must not report an error.
func TestRegressLostResponseThenRetriableErrorAtRetryLimit(t *testing.T) {
	for _, code := range []int16{kerr.NotLeaderForPartition.Code, kerr.NotEnoughReplicas.Code} {
		bubble.Run(t, nil, func(e *bubble.Env) {
			e.StartCluster(bubble.ClusterOpts{Brokers: 1, Topics: map[string]int32{"t0": 1}})
			nproduce := 0
			e.Cluster.ControlKey(0, func(kreq kmsg.Request) (kmsg.Response, error, bool) {
				e.Cluster.KeepControl()
				nproduce++
				if nproduce != 2 {
					return nil, nil, false
				}
				req := kreq.(*kmsg.ProduceRequest)
				resp := req.ResponseKind().(*kmsg.ProduceResponse)
				for _, t := range req.Topics {
					rt := kmsg.NewProduceResponseTopic()
					rt.Topic, rt.TopicID = t.Topic, t.TopicID
					for _, p := range t.Partitions {
						rp := kmsg.NewProduceResponseTopicPartition()
						rp.Partition, rp.ErrorCode, rp.BaseOffset = p.Partition, code, -1
						rt.Partitions = append(rt.Partitions, rp)
					}
					resp.Topics = append(resp.Topics, rt)
				}
				return resp, nil, true
			})
			e.Net.AddRule(bubble.Rule{Key: 0, Nth: 0, Act: bubble.TruncResponse, Trunc: 6})
			cl := e.NewClient(kgo.RecordRetries(1), kgo.ProducerLinger(0))
			ctx, cancel := context.WithTimeout(context.Background(), 2*time.Minute)
			defer cancel()
			res := cl.ProduceSync(ctx, &kgo.Record{Topic: "t0", Partition: 0, Value: []byte("regress-c02")})
			perr := res.FirstErr()
			recs, _, err := e.ReadLog(e.RawClient(), "t0", 0, 0)
			if err != nil {
				panic("VERIF-INFRA: raw log read: " + err.Error())
			}
			n := 0
			for _, r := range recs {
				if string(r.Value) == "regress-c02" {
					n++
				}
			}
			ev.Case(fmt.Sprintf("regress-lost-response-then-code-%d-at-retry-limit", code), true)
			ev.Class("regression-replays")
			if nproduce < 2 {
				t.Errorf("history not reached: %d produce requests", nproduce)
				return
			}
			if perr != nil && n != 0 {
				t.Errorf("code %d: promise reported %q but the record is in the log %d time(s)", code, perr, n)
			}
			if perr == nil && n != 1 {
				t.Errorf("code %d: promise reported success but the record is in the log %d times", code, n)
			}
		})
	}
}
