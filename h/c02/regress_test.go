package c02

import (
	"context"
	"fmt"
	"testing"
	"time"

	"github.com/twmb/franz-go/pkg/kerr"
	"github.com/twmb/franz-go/pkg/kgo"
	"github.com/twmb/franz-go/pkg/kmsg"

	"verif/h/bubble"
	"verif/h/ev"
	"verif/h/wl"
)

// Plain replays of minimal histories the generated search found (no generator involved).

// lostResponseThenCode runs the minimal history "attempt 1 is appended by the broker but its
// response is cut off, attempt 2 is answered with code" against a one-broker cluster with the
// given client options. It returns the promise error, how often the record is in the log and
// how many produce requests the broker saw.
func lostResponseThenCode(t *testing.T, code int16, opts ...kgo.Opt) (perr error, inLog int, nproduce int) {
	bubble.Run(t, nil, func(e *bubble.Env) {
		e.StartCluster(bubble.ClusterOpts{Brokers: 1, Topics: map[string]int32{"t0": 1}})
		e.Cluster.ControlKey(0, func(kreq kmsg.Request) (kmsg.Response, error, bool) {
			e.Cluster.KeepControl()
			nproduce++
			if nproduce != 2 {
				return nil, nil, false
			}
			req := kreq.(*kmsg.ProduceRequest)
			resp := req.ResponseKind().(*kmsg.ProduceResponse)
			for _, t := range req.Topics {
				rt := kmsg.NewProduceResponseTopic()
				rt.Topic, rt.TopicID = t.Topic, t.TopicID
				for _, p := range t.Partitions {
					rp := kmsg.NewProduceResponseTopicPartition()
					rp.Partition, rp.ErrorCode, rp.BaseOffset = p.Partition, code, -1
					rt.Partitions = append(rt.Partitions, rp)
				}
				resp.Topics = append(resp.Topics, rt)
			}
			return resp, nil, true
		})
		e.Net.AddRule(bubble.Rule{Key: 0, Nth: 0, Act: bubble.TruncResponse, Trunc: 6})
		cl := e.NewClient(append([]kgo.Opt{kgo.ProducerLinger(0)}, opts...)...)
		ctx, cancel := context.WithTimeout(context.Background(), 2*time.Minute)
		defer cancel()
		res := cl.ProduceSync(ctx, &kgo.Record{Topic: "t0", Partition: 0, Value: []byte("regress-c02")})
		perr = res.FirstErr()
		recs, _, err := e.ReadLog(e.RawClient(), "t0", 0, 0)
		if err != nil {
			panic("VERIF-INFRA: raw log read: " + err.Error())
		}
		for _, r := range recs {
			if string(r.Value) == "regress-c02" {
				inLog++
			}
		}
	})
	return
}

// TestRegressLostResponseThenRetriableErrorAtRetryLimit replays the history behind
// "fixed: property=C02 a366d7f": the second attempt is answered NOT_LEADER_FOR_PARTITION (or
// NOT_ENOUGH_REPLICAS) with RecordRetries(1) exhausted. The record is in the log, so its
// promise must not report an error.
func TestRegressLostResponseThenRetriableErrorAtRetryLimit(t *testing.T) {
	for _, code := range []int16{kerr.NotLeaderForPartition.Code, kerr.NotEnoughReplicas.Code} {
		perr, n, nproduce := lostResponseThenCode(t, code, kgo.RecordRetries(1))
		ev.Case(fmt.Sprintf("regress-lost-response-then-code-%d-at-retry-limit", code), true)
		ev.Class("regression-replays")
		if nproduce < 2 {
			t.Errorf("history not reached: %d produce requests", nproduce)
			continue
		}
		if perr != nil && n != 0 {
			t.Errorf("code %d: promise reported %q but the record is in the log %d time(s)", code, perr, n)
		}
		if perr == nil && n != 1 {
			t.Errorf("code %d: promise reported success but the record is in the log %d times", code, n)
		}
	}
}

// TestRegressLostResponseThenUnknownTopicLimit replays "fixed: property=C02 f73cf8e":
// the retry after the lost response is answered UNKNOWN_TOPIC_OR_PARTITION (what a broker that
// no longer hosts the partition answers) with UnknownTopicRetries(0) exhausted.
func TestRegressLostResponseThenUnknownTopicLimit(t *testing.T) {
	perr, n, nproduce := lostResponseThenCode(t, kerr.UnknownTopicOrPartition.Code, kgo.UnknownTopicRetries(0))
	ev.Case("regress-lost-response-then-unknown-topic-limit", true)
	ev.Class("regression-replays")
	if nproduce < 2 {
		t.Errorf("history not reached: %d produce requests", nproduce)
		return
	}
	if perr != nil && n != 0 {
		t.Errorf("promise reported %q but the record is in the log %d time(s)", perr, n)
	}
	if perr == nil && n != 1 {
		t.Errorf("promise reported success but the record is in the log %d times", n)
	}
}

// TestRegressStaleUnknownCountThenTimedOutAfterAppend replays the second shape of the same
// defect: record A is answered UNKNOWN_TOPIC_OR_PARTITION and fails at UnknownTopicRetries(0)
// (not appended: fine); the unknown-failure count stays above the limit, and record B, which
// the broker appends but answers REQUEST_TIMED_OUT, was then failed on the spot although the
// client itself marks that answer as unsure-if-produced.
func TestRegressStaleUnknownCountThenTimedOutAfterAppend(t *testing.T) {
	var errA, errB error
	inLog, nproduce := 0, 0
	bubble.Run(t, nil, func(e *bubble.Env) {
		e.StartCluster(bubble.ClusterOpts{Brokers: 1, Topics: map[string]int32{"t0": 1}})
		e.Cluster.ControlKey(0, func(kreq kmsg.Request) (kmsg.Response, error, bool) {
			e.Cluster.KeepControl()
			nproduce++
			if nproduce != 1 {
				return nil, nil, false
			}
			req := kreq.(*kmsg.ProduceRequest)
			resp := req.ResponseKind().(*kmsg.ProduceResponse)
			for _, t := range req.Topics {
				rt := kmsg.NewProduceResponseTopic()
				rt.Topic, rt.TopicID = t.Topic, t.TopicID
				for _, p := range t.Partitions {
					rp := kmsg.NewProduceResponseTopicPartition()
					rp.Partition, rp.ErrorCode, rp.BaseOffset = p.Partition, kerr.UnknownTopicOrPartition.Code, -1
					rt.Partitions = append(rt.Partitions, rp)
				}
				resp.Topics = append(resp.Topics, rt)
			}
			return resp, nil, true
		})
		// the second produce request (record B, first attempt) is appended, its response rewritten
		e.Net.AddRule(bubble.Rule{Key: 0, Nth: 1, Act: bubble.RewriteResponse, Code: kerr.RequestTimedOut.Code, Rewrite: func(ri *bubble.ReqInfo, body []byte) []byte {
			return wl.RewriteProduceErr(ri.Version, body, kerr.RequestTimedOut.Code)
		}})
		cl := e.NewClient(kgo.ProducerLinger(0), kgo.UnknownTopicRetries(0), kgo.RecordRetries(1))
		ctx, cancel := context.WithTimeout(context.Background(), 2*time.Minute)
		defer cancel()
		errA = cl.ProduceSync(ctx, &kgo.Record{Topic: "t0", Partition: 0, Value: []byte("regress-A")}).FirstErr()
		errB = cl.ProduceSync(ctx, &kgo.Record{Topic: "t0", Partition: 0, Value: []byte("regress-B")}).FirstErr()
		recs, _, err := e.ReadLog(e.RawClient(), "t0", 0, 0)
		if err != nil {
			panic("VERIF-INFRA: raw log read: " + err.Error())
		}
		for _, r := range recs {
			if string(r.Value) == "regress-B" {
				inLog++
			}
		}
	})
	ev.Case("regress-stale-unknown-count-then-timed-out-after-append", true)
	ev.Class("regression-replays")
	if errA == nil || nproduce < 2 {
		t.Errorf("history not reached: record A err=%v, %d produce requests", errA, nproduce)
		return
	}
	if errB != nil && inLog != 0 {
		t.Errorf("record B: promise reported %q but the record is in the log %d time(s)", errB, inLog)
	}
	if errB == nil && inLog != 1 {
		t.Errorf("record B: promise reported success but the record is in the log %d times", inLog)
	}
}

// TestRegressSkippedPipelinedBatchThenErrorAtRetryLimit replays the third shape: two produce
// requests for one partition are in flight (batches A, B). A is appended but answered
// NOT_ENOUGH_REPLICAS_AFTER_APPEND, so the client rewinds and will resend both; B's own
// response (appended, success) is skipped because B is not the first batch of the chain. A's
// resend succeeds (duplicate), B's resend is answered NOT_LEADER_FOR_PARTITION with
// RecordRetries(1) exhausted: B was failed although the broker had appended it.
func TestRegressSkippedPipelinedBatchThenErrorAtRetryLimit(t *testing.T) {
	var errA, errB error
	inLogB, nproduce := 0, 0
	bubble.Run(t, nil, func(e *bubble.Env) {
		e.StartCluster(bubble.ClusterOpts{Brokers: 1, Topics: map[string]int32{"t0": 1}})
		e.Cluster.ControlKey(0, func(kreq kmsg.Request) (kmsg.Response, error, bool) {
			e.Cluster.KeepControl()
			nproduce++
			if nproduce != 5 { // warm-up, A, B, A again, then B again
				return nil, nil, false
			}
			req := kreq.(*kmsg.ProduceRequest)
			resp := req.ResponseKind().(*kmsg.ProduceResponse)
			for _, t := range req.Topics {
				rt := kmsg.NewProduceResponseTopic()
				rt.Topic, rt.TopicID = t.Topic, t.TopicID
				for _, p := range t.Partitions {
					rp := kmsg.NewProduceResponseTopicPartition()
					rp.Partition, rp.ErrorCode, rp.BaseOffset = p.Partition, kerr.NotLeaderForPartition.Code, -1
					rt.Partitions = append(rt.Partitions, rp)
				}
				resp.Topics = append(resp.Topics, rt)
			}
			return resp, nil, true
		})
		// A's response (second produce request) is held for 50 ms and rewritten after the append
		e.Net.AddRule(bubble.Rule{Key: 0, Nth: 1, Act: bubble.RewriteResponse, Delay: 50 * time.Millisecond, Code: kerr.NotEnoughReplicasAfterAppend.Code, Rewrite: func(ri *bubble.ReqInfo, body []byte) []byte {
			return wl.RewriteProduceErr(ri.Version, body, kerr.NotEnoughReplicasAfterAppend.Code)
		}})
		cl := e.NewClient(kgo.ProducerLinger(0), kgo.RecordRetries(1))
		ctx, cancel := context.WithTimeout(context.Background(), 2*time.Minute)
		defer cancel()
		// warm-up: after the first response the client allows several produce requests in flight
		if err := cl.ProduceSync(ctx, &kgo.Record{Topic: "t0", Partition: 0, Value: []byte("regress-W")}).FirstErr(); err != nil {
			panic("VERIF-INFRA: warm-up produce: " + err.Error())
		}
		done := make(chan struct{}, 2)
		cl.Produce(ctx, &kgo.Record{Topic: "t0", Partition: 0, Value: []byte("regress-A")}, func(_ *kgo.Record, err error) { errA = err; done <- struct{}{} })
		time.Sleep(10 * time.Millisecond)
		cl.Produce(ctx, &kgo.Record{Topic: "t0", Partition: 0, Value: []byte("regress-B")}, func(_ *kgo.Record, err error) { errB = err; done <- struct{}{} })
		<-done
		<-done
		recs, _, err := e.ReadLog(e.RawClient(), "t0", 0, 0)
		if err != nil {
			panic("VERIF-INFRA: raw log read: " + err.Error())
		}
		for _, r := range recs {
			if string(r.Value) == "regress-B" {
				inLogB++
			}
		}
	})
	ev.Case("regress-skipped-pipelined-batch-then-error-at-retry-limit", true)
	ev.Class("regression-replays")
	if nproduce < 5 {
		t.Errorf("history not reached: %d produce requests (errA=%v errB=%v)", nproduce, errA, errB)
		return
	}
	if errB != nil && inLogB != 0 {
		t.Errorf("record B: promise reported %q but the record is in the log %d time(s)", errB, inLogB)
	}
	if errB == nil && inLogB != 1 {
		t.Errorf("record B: promise reported success but the record is in the log %d times", inLogB)
	}
}
