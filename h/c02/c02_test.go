package c02

import (
	"encoding/binary"
	"fmt"
	"os"
	"sort"
	"sync/atomic"
	"testing"

	"pgregory.net/rapid"

	"verif/h/bubble"
	"verif/h/ev"
	"verif/h/wl"
)

func TestMain(m *testing.M) { ev.Main(m, "C02") }

type loc struct {
	topic string
	part  int32
	off   int64
}

func TestIdempotentExactlyOnceInOrder(t *testing.T) {
	exactlyOnceInOrder(t, wl.ProdFocus{IdemOnly: true, NoPurge: true, FatalCodesRare: true})
}

// TestIdempotentPipelineStall fills one partition's produce pipeline during a one-way network
// stall (requests handled, no responses) that ends with every connection dying: every request
// the client had in flight was appended and is resent. Exactly-once then rests on the client
// never having more unacknowledged batches per partition in flight than the broker remembers.
func TestIdempotentPipelineStall(t *testing.T) {
	exactlyOnceInOrder(t, wl.ProdFocus{IdemOnly: true, NoPurge: true, FatalCodesRare: true, Pipeline: true})
}

func exactlyOnceInOrder(t *testing.T, focus wl.ProdFocus) {
	rapid.Check(t, func(rt *rapid.T) {
		plan := wl.GenProdPlan(rt, focus)
		plan.Final = "flushclose"
		var o *wl.ProdObs
		var dropsAfterAppend, retriable int
		conclusive := false
		bubble.Run(t, rt, func(e *bubble.Env) {
			o = wl.RunProd(e, plan)
			if !o.FinalFlushReturned || o.FinalFlushErr != nil || !o.QuiescentChecked {
				return // environment healed but flush did not finish in the bound: inconclusive for C02 (C01/C03 territory)
			}
			conclusive = true
			raw := e.RawClient()
			where := map[int64][]loc{}
			for ti, topic := range plan.Topics {
				for p := int32(0); p < plan.Parts[ti]; p++ {
					recs, _, err := e.ReadLog(raw, topic, p, 0)
					if err != nil {
						panic(fmt.Sprintf("VERIF-INFRA: raw log read %s/%d: %v", topic, p, err))
					}
					last := int64(-1)
					for _, r := range recs {
						if r.Control {
							continue
						}
						if r.Offset <= last {
							rt.Fatalf("raw log of %s/%d not strictly increasing at offset %d", topic, p, r.Offset)
						}
						last = r.Offset
						if len(r.Value) >= 8 {
							id := int64(binary.BigEndian.Uint64(r.Value))
							where[id] = append(where[id], loc{topic, p, r.Offset})
						}
					}
				}
			}
			for _, ri := range e.Net.Requests() {
				if ri.Key == 0 && ri.Act == bubble.DropResponse && ri.Handled {
					dropsAfterAppend++
				}
			}
			check(rt, o, where)
		})
		for k, n := range o.FailurePaths {
			if len(k) > 5 && k[:5] == "code-" {
				retriable += n
			}
		}
		nt := conclusive && (dropsAfterAppend > 0 || retriable > 0)
		ev.Case(o.Digest(), nt)
		if !conclusive {
			ev.Class("inconclusive-final-flush")
		}
		if dropsAfterAppend > 0 {
			ev.Class("response-dropped-after-append")
		}
		if retriable > 0 {
			ev.Class("error-code-injected")
		}
		for k := range o.FailurePaths {
			ev.Class("path:" + k)
		}
		okc, errc := 0, 0
		for _, rs := range o.Recs {
			if rs.PromiseErr == nil {
				okc++
			} else {
				errc++
			}
		}
		ev.ClassN("records-acked", int64(okc))
		ev.ClassN("records-failed", int64(errc))
		if nt {
			ev.SampleIf(func() any {
				return map[string]any{"steps": o.StepKinds, "cfg": fmt.Sprintf("%+v", plan.Cfg), "records_acked": okc, "records_failed": errc, "produce_responses_dropped_after_append": dropsAfterAppend}
			})
		}
	})
}

func check(rt *rapid.T, o *wl.ProdObs, where map[int64][]loc) {
	fail := func(format string, a ...any) {
		rt.Fatalf("%s\nplan: %s\nhistory tail:\n%s", fmt.Sprintf(format, a...), o.Plan.Brief(), o.Log.Dump(dumpN()))
	}
	type placed struct {
		rs  *wl.RecState
		off int64
	}
	perPart := map[string][]placed{}
	for _, rs := range o.Recs {
		if atomic.LoadInt32(&rs.Promises) != 1 {
			continue // C01's business
		}
		locs := where[rs.ID]
		if rs.PromiseErr == nil {
			if len(locs) != 1 {
				fail("record %d acked (partition %d offset %d) but appears %d times in the log: %v", rs.ID, rs.PromPart, rs.PromOffset, len(locs), locs)
			}
			l := locs[0]
			if l.topic != rs.Topic || l.part != rs.PromPart || l.part != rs.Partition {
				fail("record %d acked for %s/%d but found in %s/%d", rs.ID, rs.Topic, rs.PromPart, l.topic, l.part)
			}
			if l.off != rs.PromOffset {
				fail("record %d: promise reported offset %d but the log has it at %d", rs.ID, rs.PromOffset, l.off)
			}
			k := fmt.Sprintf("%s/%d", l.topic, l.part)
			perPart[k] = append(perPart[k], placed{rs, l.off})
		} else if !o.Plan.Cfg.AllowCancel {
			if len(locs) != 0 {
				fail("record %d failed with %q but is in the log at %v", rs.ID, rs.PromiseErr, locs)
			}
		}
	}
	// order: a produce call that returned before another began (same partition, both acked) has the smaller offset
	for k, ps := range perPart {
		sort.Slice(ps, func(i, j int) bool { return ps[i].off < ps[j].off })
		for i := 0; i < len(ps); i++ {
			for j := i + 1; j < len(ps); j++ {
				a, b := ps[i].rs, ps[j].rs // a has the smaller offset
				if b.CallEnd >= 0 && b.CallEnd < a.CallStart && b.Mode != "sync" && a.Mode != "sync" {
					fail("%s: record %d (produce call returned at log #%d) is at offset %d AFTER record %d (call began at #%d) at offset %d", k, b.ID, b.CallEnd, ps[j].off, a.ID, a.CallStart, ps[i].off)
				}
				// same producing goroutine (same step) => call order
				if a.Step == b.Step && a.ID > b.ID {
					fail("%s: records %d and %d were produced in that order by one goroutine but appear reversed (offsets %d, %d)", k, b.ID, a.ID, ps[j].off, ps[i].off)
				}
			}
		}
	}
}

func dumpN() int {
	if os.Getenv("VERIF_DEBUG") != "" {
		return 1000
	}
	return 50
}
