// Package c24 checks property C24: the three protocol tables of franz-go (kerr error
// codes, kmsg key dispatch, kversion release tables) are mutually consistent, and agree
// with the headers of generate/definitions. The spaces are finite (all int16 codes, all
// int16 keys, all named releases) and are enumerated completely in every tier.
package c24

import (
	"fmt"
	"go/ast"
	"go/parser"
	"go/token"
	"os"
	"path/filepath"
	"reflect"
	"regexp"
	"sort"
	"strconv"
	"strings"
	"testing"

	"github.com/twmb/franz-go/pkg/kerr"
	"github.com/twmb/franz-go/pkg/kmsg"
	"github.com/twmb/franz-go/pkg/kversion"
	_ "pgregory.net/rapid" // registers the -rapid.* flags the driver always passes; this check is pure enumeration

	"verif/h/ev"
)

func TestMain(m *testing.M) { ev.Main(m, "C24") }

// infra reports a harness/infrastructure problem (exit 2 in the driver), never a violation.
func infra(t *testing.T, format string, a ...any) {
	t.Helper()
	msg := fmt.Sprintf(format, a...)
	fmt.Println("VERIF-INFRA: " + msg)
	t.Fatalf("VERIF-INFRA: %s", msg)
}

// sampleN keeps at most n samples per table so the evidence shows all three tables.
type sampleN struct{ left int }

func (s *sampleN) maybe(f func() any) {
	if s.left > 0 {
		s.left--
		ev.Sample(f())
	}
}

// fails collects every mismatch of one table so the replay file lists all of them.
type fails struct{ msgs []string }

func (f *fails) addf(format string, a ...any) {
	if len(f.msgs) < 200 {
		f.msgs = append(f.msgs, fmt.Sprintf(format, a...))
	}
}

func (f *fails) finish(t *testing.T, name string) {
	t.Helper()
	if len(f.msgs) == 0 {
		return
	}
	body := strings.Join(f.msgs, "\n") + "\n"
	ev.Replay("c24-"+name+".txt", body)
	t.Fatalf("C24 %s: %d mismatches, first: %s", name, len(f.msgs), f.msgs[0])
}

// ---------------------------------------------------------------------------------
// error codes

type declErr struct {
	goName    string
	message   string
	code      int
	retriable bool
	desc      string
}

// parseDeclaredErrors reads every `Name = &Error{"MSG", code, retriable, "desc"}` of
// kerr.go. This is the list of "Kafka error codes" the package declares; it is read from
// the declarations, not from the code2err lookup table that is under test.
func parseDeclaredErrors(t *testing.T) []declErr {
	path := filepath.Join(ev.Repo(), "pkg", "kerr", "kerr.go")
	fset := token.NewFileSet()
	f, err := parser.ParseFile(fset, path, nil, 0)
	if err != nil {
		infra(t, "cannot parse %s: %v", path, err)
	}
	var out []declErr
	for _, d := range f.Decls {
		gd, ok := d.(*ast.GenDecl)
		if !ok || gd.Tok != token.VAR {
			continue
		}
		for _, s := range gd.Specs {
			vs := s.(*ast.ValueSpec)
			for i, v := range vs.Values {
				ue, ok := v.(*ast.UnaryExpr)
				if !ok || ue.Op != token.AND {
					continue
				}
				cl, ok := ue.X.(*ast.CompositeLit)
				if !ok {
					continue
				}
				id, ok := cl.Type.(*ast.Ident)
				if !ok || id.Name != "Error" {
					continue
				}
				if len(cl.Elts) != 4 {
					infra(t, "kerr.go: %s is not a 4-element positional Error literal", vs.Names[i].Name)
				}
				de := declErr{goName: vs.Names[i].Name}
				var e1, e2 error
				de.message, e1 = strconv.Unquote(lit(cl.Elts[0]))
				de.desc, e2 = strconv.Unquote(lit(cl.Elts[3]))
				c, e3 := strconv.Atoi(lit(cl.Elts[1]))
				b, e4 := strconv.ParseBool(lit(cl.Elts[2]))
				if e1 != nil || e2 != nil || e3 != nil || e4 != nil {
					infra(t, "kerr.go: cannot read the literal of %s (%v %v %v %v)", de.goName, e1, e2, e3, e4)
				}
				de.code, de.retriable = c, b
				out = append(out, de)
			}
		}
	}
	if len(out) < 50 {
		infra(t, "kerr.go: only %d declared errors found; the file changed shape", len(out))
	}
	return out
}

// lit renders a literal expression: basic literals, identifiers (true/false), -N.
func lit(e ast.Expr) string {
	switch x := e.(type) {
	case *ast.BasicLit:
		return x.Value
	case *ast.Ident:
		return x.Name
	case *ast.UnaryExpr:
		if x.Op == token.SUB {
			return "-" + lit(x.X)
		}
	case *ast.ParenExpr:
		return lit(x.X)
	}
	return "?"
}

// Hand-stated fact (Apache Kafka protocol, org.apache.kafka.common.protocol.Errors):
// error codes -1 and 1..133 are assigned (133 = SHARE_SESSION_LIMIT_REACHED, Kafka 4.1).
const kafkaMaxAssignedErrorCode = 133

func TestErrorCodes(t *testing.T) {
	decl := parseDeclaredErrors(t)
	var f fails
	smp := sampleN{2}
	byCode := map[int]declErr{}
	for _, d := range decl {
		if d.code < -32768 || d.code > 32767 {
			f.addf("declared error %s has code %d outside int16", d.goName, d.code)
			continue
		}
		if o, dup := byCode[d.code]; dup {
			f.addf("declared errors %s and %s share code %d: one of them cannot be what the code maps to", o.goName, d.goName, d.code)
			continue
		}
		byCode[d.code] = d
	}
	if _, ok := byCode[-1]; !ok {
		infra(t, "kerr.go: no declared error with code -1 (UNKNOWN_SERVER_ERROR)")
	}
	nKnown, nUnknown := 0, 0
	for c := -32768; c <= 32767; c++ {
		code := int16(c)
		e := kerr.ErrorForCode(code)
		te := kerr.TypedErrorForCode(code)
		d, known := byCode[c]
		ev.Case(fmt.Sprintf("err:%d", c), known && c != 0)
		if c == 0 {
			if e != nil {
				f.addf("ErrorForCode(0) = %v, want nil", e)
			}
			if te != nil {
				f.addf("TypedErrorForCode(0) = %v, want nil", te)
			}
			if known {
				f.addf("an error (%s) is declared with code 0, which means 'no error'", d.goName)
			}
			continue
		}
		if e == nil {
			f.addf("ErrorForCode(%d) = nil; only code 0 means no error", c)
			continue
		}
		ke, ok := e.(*kerr.Error)
		if !ok || ke == nil {
			f.addf("ErrorForCode(%d) = %T %v, want a non-nil *kerr.Error", c, e, e)
			continue
		}
		if te != ke {
			f.addf("TypedErrorForCode(%d) = %p %v but ErrorForCode(%d) = %p %v", c, te, te, c, ke, ke)
		}
		if known || (c >= 1 && c <= kafkaMaxAssignedErrorCode) {
			nKnown++
			if int(ke.Code) != c {
				f.addf("ErrorForCode(%d) = %s carrying code %d, want an error carrying code %d", c, ke.Message, ke.Code, c)
				continue
			}
			if !known {
				continue // carried code is right; nothing declared to compare with (cannot happen: ke came from somewhere)
			}
			if ke.Message != d.message || ke.Retriable != d.retriable || ke.Description != d.desc {
				f.addf("ErrorForCode(%d) = {%s retriable=%v} but the error declared with code %d is %s {%s retriable=%v}", c, ke.Message, ke.Retriable, c, d.goName, d.message, d.retriable)
			}
			smp.maybe(func() any {
				return map[string]any{"table": "kerr", "code": c, "maps_to": ke.Message, "declared_as": d.goName}
			})
			continue
		}
		nUnknown++
		if ke != kerr.UnknownServerError || ke.Code != -1 || ke.Message != "UNKNOWN_SERVER_ERROR" {
			f.addf("ErrorForCode(%d) (no error is declared with this code) = %s code %d, want UNKNOWN_SERVER_ERROR", c, ke.Message, ke.Code)
		}
	}
	ev.ClassN("error_codes_known", int64(nKnown))
	ev.ClassN("error_codes_unknown", int64(nUnknown))
	ev.ClassN("error_vars_declared", int64(len(decl)))
	ev.Exhaustive(true)
	f.finish(t, "error-codes")
}

// ---------------------------------------------------------------------------------
// API keys

// parseKeyConsts reads the `Name Key = N` constants of kmsg/generated.go.
func parseKeyConsts(t *testing.T) map[string]int {
	path := filepath.Join(ev.Repo(), "pkg", "kmsg", "generated.go")
	fset := token.NewFileSet()
	f, err := parser.ParseFile(fset, path, nil, parser.SkipObjectResolution)
	if err != nil {
		infra(t, "cannot parse %s: %v", path, err)
	}
	out := map[string]int{}
	for _, d := range f.Decls {
		gd, ok := d.(*ast.GenDecl)
		if !ok || gd.Tok != token.CONST {
			continue
		}
		for _, s := range gd.Specs {
			vs := s.(*ast.ValueSpec)
			id, ok := vs.Type.(*ast.Ident)
			if !ok || id.Name != "Key" {
				continue
			}
			if len(vs.Names) != 1 || len(vs.Values) != 1 {
				infra(t, "generated.go: Key constant %v is not of the form `Name Key = N`", vs.Names)
			}
			n, err := strconv.Atoi(lit(vs.Values[0]))
			if err != nil {
				infra(t, "generated.go: Key constant %s has a non-literal value", vs.Names[0].Name)
			}
			if _, dup := out[vs.Names[0].Name]; dup {
				infra(t, "generated.go: Key constant %s parsed twice", vs.Names[0].Name)
			}
			out[vs.Names[0].Name] = n
		}
	}
	if len(out) < 20 {
		infra(t, "generated.go: only %d Key constants found; the file changed shape", len(out))
	}
	return out
}

type defHeader struct {
	name        string // without the Request suffix
	key, max    int
	file        string
	hasResponse bool
}

var reReqHeader = regexp.MustCompile(`^([A-Za-z0-9]+)Request => key (-?\d+), max version (-?\d+)(?:,|$)`)
var reRespHeader = regexp.MustCompile(`^([A-Za-z0-9]+)Response =>\s*$`)

// parseDefinitions scans generate/definitions for request headers
// `XRequest => key N, max version M[, ...]` and response headers `XResponse =>`.
func parseDefinitions(t *testing.T) []defHeader {
	dir := filepath.Join(ev.Repo(), "generate", "definitions")
	ents, err := os.ReadDir(dir)
	if err != nil {
		infra(t, "cannot list %s: %v", dir, err)
	}
	var names []string
	for _, e := range ents {
		if !e.IsDir() {
			names = append(names, e.Name())
		}
	}
	sort.Strings(names)
	var out []defHeader
	resp := map[string]bool{}
	for _, n := range names {
		b, err := os.ReadFile(filepath.Join(dir, n))
		if err != nil {
			infra(t, "cannot read definition %s: %v", n, err)
		}
		for _, line := range strings.Split(string(b), "\n") {
			if m := reReqHeader.FindStringSubmatch(line); m != nil {
				k, _ := strconv.Atoi(m[2])
				mx, _ := strconv.Atoi(m[3])
				out = append(out, defHeader{name: m[1], key: k, max: mx, file: n})
			} else if strings.Contains(line, "Request => key") && !strings.HasPrefix(strings.TrimSpace(line), "//") {
				infra(t, "definition %s: header line %q not understood", n, line)
			}
			if m := reRespHeader.FindStringSubmatch(line); m != nil {
				resp[m[1]] = true
			}
		}
	}
	for i := range out {
		out[i].hasResponse = resp[out[i].name]
	}
	if len(out) < 20 {
		infra(t, "generate/definitions: only %d request headers found; the directory changed shape", len(out))
	}
	return out
}

func typeName(v any) string {
	rt := reflect.TypeOf(v)
	if rt == nil {
		return "<nil>"
	}
	if rt.Kind() == reflect.Pointer {
		return rt.Elem().Name()
	}
	return rt.Name()
}

func TestAPIKeys(t *testing.T) {
	consts := parseKeyConsts(t)
	defs := parseDefinitions(t)
	var f fails
	smp := sampleN{2}

	constByVal := map[int][]string{}
	for n, v := range consts {
		constByVal[v] = append(constByVal[v], n)
	}
	defByKey := map[int][]defHeader{}
	for _, d := range defs {
		defByKey[d.key] = append(defByKey[d.key], d)
	}

	nameSeen := map[string]int{}
	nKnown := 0
	for k := -32768; k <= 32767; k++ {
		key := int16(k)
		req := kmsg.RequestForKey(key)
		resp := kmsg.ResponseForKey(key)
		name := kmsg.NameForKey(key)
		known := req != nil
		ev.Case(fmt.Sprintf("key:%d", k), known)
		kk := kmsg.Key(key)
		if kk.Int16() != key {
			f.addf("Key(%d).Int16() = %d", k, kk.Int16())
		}
		if kk.Name() != name {
			f.addf("Key(%d).Name() = %q but NameForKey = %q", k, kk.Name(), name)
		}
		if (kk.Request() == nil) != (req == nil) || (kk.Response() == nil) != (resp == nil) {
			f.addf("Key(%d).Request()/Response() nil-ness differs from RequestForKey/ResponseForKey", k)
		}
		if !known {
			if resp != nil {
				f.addf("key %d: RequestForKey is nil but ResponseForKey is %T", k, resp)
			}
			// The doc of NameForKey says "" for unknown keys while the code returns
			// "Unknown"; the property is silent, so either is accepted here.
			if name != "" && name != "Unknown" {
				f.addf("key %d: no request type but NameForKey = %q", k, name)
			}
			if cs := constByVal[k]; len(cs) > 0 {
				f.addf("key %d: Key constant(s) %v exist but RequestForKey is nil", k, cs)
			}
			if ds := defByKey[k]; len(ds) > 0 {
				f.addf("key %d: defined in generate/definitions/%s as %sRequest but RequestForKey is nil", k, ds[0].file, ds[0].name)
			}
			continue
		}
		nKnown++
		if resp == nil {
			f.addf("key %d: RequestForKey is %T but ResponseForKey is nil", k, req)
			continue
		}
		// key agreement
		if req.Key() != key {
			f.addf("RequestForKey(%d) = %T whose Key() is %d", k, req, req.Key())
		}
		if resp.Key() != key {
			f.addf("ResponseForKey(%d) = %T whose Key() is %d", k, resp, resp.Key())
		}
		// max version agreement
		if req.MaxVersion() != resp.MaxVersion() {
			f.addf("key %d: %T.MaxVersion() = %d but %T.MaxVersion() = %d", k, req, req.MaxVersion(), resp, resp.MaxVersion())
		}
		if req.MaxVersion() < 0 {
			f.addf("key %d: %T.MaxVersion() = %d is negative", k, req, req.MaxVersion())
		}
		// name agreement
		if name == "" || name == "Unknown" {
			f.addf("key %d: request type %T exists but NameForKey = %q", k, req, name)
		}
		if tn := typeName(req); tn != name+"Request" {
			f.addf("key %d: NameForKey = %q but the request type is %s", k, name, tn)
		}
		if tn := typeName(resp); tn != name+"Response" {
			f.addf("key %d: NameForKey = %q but the response type is %s", k, name, tn)
		}
		if o, dup := nameSeen[name]; dup {
			f.addf("keys %d and %d share the name %q", o, k, name)
		}
		nameSeen[name] = k
		// request <-> response pairing
		rk := req.ResponseKind()
		if rk == nil || reflect.TypeOf(rk) != reflect.TypeOf(resp) {
			f.addf("key %d: %T.ResponseKind() is %T, ResponseForKey gives %T", k, req, rk, resp)
		} else if rk.Key() != key || rk.MaxVersion() != resp.MaxVersion() {
			f.addf("key %d: ResponseKind() has key %d max %d, want key %d max %d", k, rk.Key(), rk.MaxVersion(), k, resp.MaxVersion())
		}
		qk := resp.RequestKind()
		if qk == nil || reflect.TypeOf(qk) != reflect.TypeOf(req) {
			f.addf("key %d: %T.RequestKind() is %T, RequestForKey gives %T", k, resp, qk, req)
		} else if qk.Key() != key || qk.MaxVersion() != req.MaxVersion() {
			f.addf("key %d: RequestKind() has key %d max %d, want key %d max %d", k, qk.Key(), qk.MaxVersion(), k, req.MaxVersion())
		}
		if reflect.TypeOf(kk.Request()) != reflect.TypeOf(req) || reflect.TypeOf(kk.Response()) != reflect.TypeOf(resp) {
			f.addf("key %d: Key.Request()/Response() give %T/%T, want %T/%T", k, kk.Request(), kk.Response(), req, resp)
		}
		// Key constant
		if v, ok := consts[name]; !ok {
			f.addf("key %d (%s): no kmsg.Key constant named %s", k, name, name)
		} else if v != k {
			f.addf("key %d (%s): kmsg.Key constant %s = %d", k, name, name, v)
		}
		if cs := constByVal[k]; len(cs) != 1 {
			f.addf("key %d (%s): Key constants with this value: %v, want exactly one", k, name, cs)
		}
		// definitions
		ds := defByKey[k]
		switch {
		case len(ds) == 0:
			f.addf("key %d (%s): kmsg has request/response types but generate/definitions has no `=> key %d` header", k, name, k)
		case len(ds) > 1:
			f.addf("key %d: %d definition headers claim this key (%s in %s, %s in %s)", k, len(ds), ds[0].name, ds[0].file, ds[1].name, ds[1].file)
		default:
			d := ds[0]
			if d.name != name {
				f.addf("key %d: definitions/%s names it %sRequest, kmsg names it %s", k, d.file, d.name, name)
			}
			if d.max != int(req.MaxVersion()) {
				f.addf("key %d (%s): definitions/%s says max version %d, kmsg %T.MaxVersion() = %d", k, name, d.file, d.max, req, req.MaxVersion())
			}
			if !d.hasResponse {
				f.addf("key %d (%s): definitions/%s has no `%sResponse =>` header", k, name, d.file, d.name)
			}
		}
		smp.maybe(func() any {
			return map[string]any{"table": "kmsg", "key": k, "name": name, "request": typeName(req), "response": typeName(resp), "max_version": req.MaxVersion(), "definition_file": func() string {
				if len(ds) > 0 {
					return ds[0].file
				}
				return ""
			}()}
		})
	}
	// constants that point at nothing were reported above through constByVal for unknown
	// keys; constants outside int16 cannot be reached by the loop.
	for n, v := range consts {
		if v < -32768 || v > 32767 {
			f.addf("Key constant %s = %d is outside int16", n, v)
		}
	}
	for _, d := range defs {
		if d.key < -32768 || d.key > 32767 {
			f.addf("definition %s: key %d is outside int16", d.file, d.key)
		}
	}
	ev.ClassN("api_keys_known", int64(nKnown))
	ev.ClassN("api_keys_unknown", int64(65536-nKnown))
	ev.ClassN("key_constants", int64(len(consts)))
	ev.ClassN("definition_request_headers", int64(len(defs)))
	ev.Exhaustive(true)
	f.finish(t, "api-keys")
}

// ---------------------------------------------------------------------------------
// releases

// handReleases is the hand-written list of every exported kversion function returning
// *Versions without arguments. It is compared with a go/parser enumeration of the package
// at check time; a difference is an infrastructure error (this list needs maintenance),
// not a violation.
var handReleases = map[string]func() *kversion.Versions{
	"Stable":  kversion.Stable,
	"Tip":     kversion.Tip,
	"V0_8_0":  kversion.V0_8_0,
	"V0_8_1":  kversion.V0_8_1,
	"V0_8_2":  kversion.V0_8_2,
	"V0_9_0":  kversion.V0_9_0,
	"V0_10_0": kversion.V0_10_0,
	"V0_10_1": kversion.V0_10_1,
	"V0_10_2": kversion.V0_10_2,
	"V0_11_0": kversion.V0_11_0,
	"V1_0_0":  kversion.V1_0_0,
	"V1_1_0":  kversion.V1_1_0,
	"V2_0_0":  kversion.V2_0_0,
	"V2_1_0":  kversion.V2_1_0,
	"V2_2_0":  kversion.V2_2_0,
	"V2_3_0":  kversion.V2_3_0,
	"V2_4_0":  kversion.V2_4_0,
	"V2_5_0":  kversion.V2_5_0,
	"V2_6_0":  kversion.V2_6_0,
	"V2_7_0":  kversion.V2_7_0,
	"V2_8_0":  kversion.V2_8_0,
	"V3_0_0":  kversion.V3_0_0,
	"V3_1_0":  kversion.V3_1_0,
	"V3_2_0":  kversion.V3_2_0,
	"V3_3_0":  kversion.V3_3_0,
	"V3_4_0":  kversion.V3_4_0,
	"V3_5_0":  kversion.V3_5_0,
	"V3_6_0":  kversion.V3_6_0,
	"V3_7_0":  kversion.V3_7_0,
	"V3_8_0":  kversion.V3_8_0,
	"V3_9_0":  kversion.V3_9_0,
	"V4_0_0":  kversion.V4_0_0,
	"V4_1_0":  kversion.V4_1_0,
	"V4_2_0":  kversion.V4_2_0,
}

// parseReleaseFuncs lists exported, receiver-less, argument-less functions of package
// kversion whose single result is *Versions.
func parseReleaseFuncs(t *testing.T) []string {
	dir := filepath.Join(ev.Repo(), "pkg", "kversion")
	fset := token.NewFileSet()
	pkgs, err := parser.ParseDir(fset, dir, func(fi os.FileInfo) bool { return !strings.HasSuffix(fi.Name(), "_test.go") }, parser.SkipObjectResolution)
	if err != nil {
		infra(t, "cannot parse %s: %v", dir, err)
	}
	p, ok := pkgs["kversion"]
	if !ok {
		infra(t, "package kversion not found in %s", dir)
	}
	var out []string
	for _, file := range p.Files {
		for _, d := range file.Decls {
			fd, ok := d.(*ast.FuncDecl)
			if !ok || fd.Recv != nil || !fd.Name.IsExported() {
				continue
			}
			if fd.Type.Params != nil && len(fd.Type.Params.List) != 0 {
				continue
			}
			if fd.Type.Results == nil || len(fd.Type.Results.List) != 1 || len(fd.Type.Results.List[0].Names) > 1 {
				continue
			}
			st, ok := fd.Type.Results.List[0].Type.(*ast.StarExpr)
			if !ok {
				continue
			}
			if id, ok := st.X.(*ast.Ident); ok && id.Name == "Versions" {
				out = append(out, fd.Name.Name)
			}
		}
	}
	sort.Strings(out)
	return out
}

func TestReleases(t *testing.T) {
	parsed := parseReleaseFuncs(t)
	var hand []string
	for n := range handReleases {
		hand = append(hand, n)
	}
	sort.Strings(hand)
	if !reflect.DeepEqual(parsed, hand) {
		infra(t, "the hand list of named releases differs from pkg/kversion: parsed=%v hand=%v", parsed, hand)
	}

	type rel struct {
		name string
		vs   *kversion.Versions
	}
	var rels []rel
	for _, n := range hand {
		vs := handReleases[n]()
		if vs == nil {
			infra(t, "kversion.%s() returned nil", n)
		}
		rels = append(rels, rel{n + "()", vs})
	}
	// Releases named by string (VersionStrings / FromString) are named releases too.
	strs := kversion.VersionStrings()
	if len(strs) == 0 {
		infra(t, "kversion.VersionStrings() is empty")
	}
	var f fails
	smp := sampleN{2}
	for _, s := range strs {
		vs := kversion.FromString(s)
		if vs == nil {
			f.addf("VersionStrings lists %q but FromString(%q) is nil", s, s)
			continue
		}
		rels = append(rels, rel{"FromString(" + s + ")", vs})
	}

	// codec max per key, -1 = the codec has no such key
	codecMax := make([]int32, 65536)
	for k := -32768; k <= 32767; k++ {
		codecMax[k+32768] = -1
		if req := kmsg.RequestForKey(int16(k)); req != nil {
			codecMax[k+32768] = int32(req.MaxVersion())
		}
	}
	pairs, atMax := 0, 0
	for _, r := range rels {
		present := 0
		for k := -32768; k <= 32767; k++ {
			v, ok := r.vs.LookupMaxKeyVersion(int16(k))
			ev.Case(fmt.Sprintf("rel:%s:%d", r.name, k), ok)
			if ok != r.vs.HasKey(int16(k)) {
				f.addf("%s: HasKey(%d) disagrees with LookupMaxKeyVersion", r.name, k)
			}
			if !ok {
				continue
			}
			present++
			pairs++
			cm := codecMax[k+32768]
			switch {
			case v < 0:
				f.addf("%s allows key %d at negative version %d", r.name, k, v)
			case cm < 0:
				f.addf("%s allows key %d up to version %d but kmsg has no request type for this key", r.name, k, v)
			case int32(v) > cm:
				f.addf("%s allows key %d (%s) up to version %d but the codec's MaxVersion is %d", r.name, k, kmsg.NameForKey(int16(k)), v, cm)
			case int32(v) == cm:
				atMax++
			}
		}
		// EachMaxKeyVersion must list the same pairs the lookups gave
		each := 0
		r.vs.EachMaxKeyVersion(func(k, v int16) {
			each++
			if lv, ok := r.vs.LookupMaxKeyVersion(k); !ok || lv != v {
				f.addf("%s: EachMaxKeyVersion gives key %d version %d, lookup gives %d,%v", r.name, k, v, lv, ok)
			}
		})
		if each != present {
			f.addf("%s: EachMaxKeyVersion visits %d keys, the int16 sweep finds %d", r.name, each, present)
		}
		if present == 0 {
			f.addf("%s has no keys at all", r.name)
		}
		rn, pn := r.name, present
		smp.maybe(func() any {
			pv, _ := r.vs.LookupMaxKeyVersion(0)
			fv, _ := r.vs.LookupMaxKeyVersion(1)
			return map[string]any{"table": "kversion", "release": rn, "keys": pn, "produce_max": pv, "fetch_max": fv, "codec_produce_max": codecMax[0+32768], "codec_fetch_max": codecMax[1+32768]}
		})
	}
	ev.ClassN("releases_by_function", int64(len(hand)))
	ev.ClassN("releases_by_string", int64(len(strs)))
	ev.ClassN("release_key_pairs", int64(pairs))
	ev.ClassN("release_key_pairs_at_codec_max", int64(atMax))
	ev.Exhaustive(true)
	f.finish(t, "releases")
}
