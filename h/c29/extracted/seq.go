// Code generated at check time from sink.go (func incrementSequence); DO NOT EDIT.

package extracted

import (
	"math"
)

// IncrementSequence is the body of incrementSequence, copied verbatim.
func IncrementSequence(sequence, increment int32) int32 {
	if sequence > math.MaxInt32-increment {
		return increment - (math.MaxInt32 - sequence) - 1
	}

	return sequence + increment
}
