package e2e

import (
	"context"
	"encoding/binary"
	"fmt"
	"testing"
	"time"

	"github.com/twmb/franz-go/pkg/kerr"
	"github.com/twmb/franz-go/pkg/kgo"
	"github.com/twmb/franz-go/pkg/kmsg"
	"pgregory.net/rapid"

	"verif/h/bubble"
	"verif/h/ev"
	"verif/h/wl"
)

func TestMain(m *testing.M) { ev.Main(m, "C29") }

// The client's sequence STATE across the wrap (recBuf.seq and batch0Seq, not only the
// increment function): a real idempotent producer whose partition sequence has been placed
// shortly before 2^31 (hook VerifSetUnusedPartitionSequence; producing 2^31 records first is
// not an option) produces batches across the wrap against kfake while retriable produce errors
// and lost responses force resends, so that the sequence of a resent batch is recomputed from
// the state the client keeps for the first pending batch. kfake checks every batch against
// (previous first sequence + previous count) mod 2^31 and answers a duplicate with its original
// offset; the oracle is: every promise succeeds, the partition log holds every record exactly
// once and in produce order, all batches carry one producer id and epoch (an epoch bump means
// the client ran into a sequence error and recovered by starting over), and every Produce
// request written carries a first sequence in [0, 2^31).

type step struct {
	N     int    // records in this Produce call burst (one batch each: ProduceSync per burst)
	Fault string // none | notleader | timeout-code | drop-response | kill-before
}

type plan struct {
	Back  int // sequence starts at 2^31 - Back
	Steps []step
}

func genPlan(t *rapid.T) plan {
	p := plan{Back: rapid.IntRange(1, 12).Draw(t, "back")}
	n := rapid.IntRange(2, 8).Draw(t, "nsteps")
	for i := 0; i < n; i++ {
		p.Steps = append(p.Steps, step{N: rapid.IntRange(1, 5).Draw(t, "n"),
			Fault: rapid.SampledFrom([]string{"none", "none", "notleader", "notleader", "timeout-code", "drop-response", "kill-before"}).Draw(t, "fault")})
	}
	return p
}

func TestClientStateAcrossWrap(t *testing.T) {
	rapid.Check(t, func(rt *rapid.T) {
		p := genPlan(rt)
		crossed, resentAfterWrap := false, false
		bubble.Run(t, rt, func(e *bubble.Env) {
			e.Net.KeepFrames()
			e.StartCluster(bubble.ClusterOpts{Brokers: 1, Topics: map[string]int32{"w": 2}})
			cl := e.NewClient(kgo.RecordPartitioner(kgo.ManualPartitioner()), kgo.ProducerLinger(0), kgo.ProducerBatchCompression(kgo.NoCompression()),
				kgo.RequestRetries(20), kgo.RecordRetries(20))
			ctx := context.Background()
			// load the topic and the producer id through the other partition
			if err := cl.ProduceSync(ctx, &kgo.Record{Topic: "w", Partition: 0, Value: []byte("load")}).FirstErr(); err != nil {
				panic("VERIF-INFRA: first produce: " + err.Error())
			}
			start := int32((int64(1) << 31) - int64(p.Back))
			if !kgo.VerifSetUnusedPartitionSequence(cl, "w", 1, start) {
				panic("VERIF-INFRA: VerifSetUnusedPartitionSequence refused (partition not loaded or already used)")
			}
			fail := func(format string, a ...any) {
				rt.Fatalf("%s\nplan: %+v (first sequence %d)\nhistory tail:\n%s", fmt.Sprintf(format, a...), p, start, e.Log.Dump(40))
			}
			var next uint64
			total := 0
			for si, s := range p.Steps {
				switch s.Fault {
				case "notleader", "timeout-code":
					code := kerr.NotLeaderForPartition.Code
					if s.Fault == "timeout-code" {
						code = kerr.RequestTimedOut.Code
					}
					e.Cluster.ControlKey(int16(kmsg.Produce), func(kreq kmsg.Request) (kmsg.Response, error, bool) {
						return wl.ProduceErrResp(kreq.(*kmsg.ProduceRequest), code), nil, true
					})
				case "drop-response":
					e.Net.AddRuleNext(int16(kmsg.Produce), bubble.DropResponse, 0)
				case "kill-before":
					e.Net.AddRuleNext(int16(kmsg.Produce), bubble.KillBefore, 0)
				}
				var recs []*kgo.Record
				for i := 0; i < s.N; i++ {
					v := make([]byte, 8)
					binary.BigEndian.PutUint64(v, next)
					next++
					recs = append(recs, &kgo.Record{Topic: "w", Partition: 1, Value: v})
				}
				pc, cancel := context.WithTimeout(ctx, 2*time.Minute)
				err := cl.ProduceSync(pc, recs...).FirstErr()
				cancel()
				e.Net.ClearRules()
				e.Log.Add("produced", int64(si), fmt.Sprintf("n=%d fault=%s", s.N, s.Fault), err, 0, 0)
				if err != nil {
					fail("step %d: producing %d records (sequence state around the 2^31 wrap, fault %s) failed: %v", si, s.N, s.Fault, err)
				}
				before := int64(start) + int64(total)
				total += s.N
				if before+int64(s.N) >= 1<<31 {
					crossed = true
					if s.Fault != "none" || before >= 1<<31 {
						resentAfterWrap = resentAfterWrap || s.Fault != "none"
					}
				}
			}
			raw := e.RawClient()
			recs, _, err := e.ReadLog(raw, "w", 1, 0)
			if err != nil {
				panic("VERIF-INFRA: raw read: " + err.Error())
			}
			var want uint64
			pid, epoch := int64(-1), int16(-1)
			for _, r := range recs {
				if r.Control || len(r.Value) != 8 {
					continue
				}
				got := binary.BigEndian.Uint64(r.Value)
				if got != want {
					fail("partition log of w/1: record at offset %d carries value %d, expected %d (every record exactly once, in produce order)", r.Offset, got, want)
				}
				want++
				if pid == -1 {
					pid, epoch = r.PID, r.Epoch
				} else if r.PID != pid || r.Epoch != epoch {
					fail("partition log of w/1: offset %d was written by producer (%d, epoch %d), earlier records by (%d, epoch %d): the client hit a sequence error across the wrap and started over with a new epoch", r.Offset, r.PID, r.Epoch, pid, epoch)
				}
			}
			if want != next {
				fail("partition log of w/1 holds %d of the %d acknowledged records", want, next)
			}
		})
		ev.Case(fmt.Sprintf("wrap-state|%+v", p), crossed && resentAfterWrap)
		ev.Class("e2e-client-sequence-state")
		if crossed {
			ev.Class("e2e-crossed-2^31")
		}
		if resentAfterWrap {
			ev.Class("e2e-batch-resent-at-or-after-the-wrap")
		}
	})
}
