// Command gen copies one top-level function out of a Go source file of the repository
// under test, by name, into a small generated package so that a check can call an
// unexported pure function of package kgo without a hook.
//
//	gen <source.go> <funcName> <exportedName> <out.go>
//
// The function declaration is located with go/parser + go/ast (never by line number),
// renamed to exportedName (including recursive self references), and printed together
// with exactly the imports of the source file that the function refers to. The function
// must have no receiver and may only refer to its parameters, locals, builtins and
// imported packages; anything else makes the generated file fail to compile, which the
// driver reports as an infrastructure problem (exit 2), never as a violation.
package main

import (
	"bytes"
	"fmt"
	"go/ast"
	"go/format"
	"go/parser"
	"go/printer"
	"go/token"
	"os"
	"path/filepath"
	"sort"
	"strconv"
)

func die(format string, a ...any) {
	fmt.Fprintf(os.Stderr, "gen: "+format+"\n", a...)
	os.Exit(1)
}

func main() {
	if len(os.Args) != 5 {
		die("usage: gen <source.go> <funcName> <exportedName> <out.go>")
	}
	src, name, exported, out := os.Args[1], os.Args[2], os.Args[3], os.Args[4]
	fset := token.NewFileSet()
	f, err := parser.ParseFile(fset, src, nil, parser.SkipObjectResolution)
	if err != nil {
		die("parse %s: %v", src, err)
	}
	var fn *ast.FuncDecl
	for _, d := range f.Decls {
		if fd, ok := d.(*ast.FuncDecl); ok && fd.Recv == nil && fd.Name.Name == name {
			if fn != nil {
				die("%s declared twice in %s", name, src)
			}
			fn = fd
		}
	}
	if fn == nil {
		die("function %s not found in %s (file changed shape?)", name, src)
	}
	if fn.Body == nil {
		die("function %s has no body", name)
	}
	if fn.Type.TypeParams != nil {
		die("function %s is generic; not supported", name)
	}

	// imports of the source file by local name
	imports := map[string]string{} // local name -> path
	for _, im := range f.Imports {
		p, err := strconv.Unquote(im.Path.Value)
		if err != nil {
			die("bad import %s", im.Path.Value)
		}
		local := filepath.Base(p)
		if im.Name != nil {
			local = im.Name.Name
		}
		if local == "_" || local == "." {
			continue
		}
		imports[local] = p
	}

	// names bound inside the function (parameters, results, locals) shadow imports
	bound := map[string]bool{}
	addFields := func(fl *ast.FieldList) {
		if fl == nil {
			return
		}
		for _, fd := range fl.List {
			for _, n := range fd.Names {
				bound[n.Name] = true
			}
		}
	}
	addFields(fn.Type.Params)
	addFields(fn.Type.Results)
	ast.Inspect(fn.Body, func(n ast.Node) bool {
		switch x := n.(type) {
		case *ast.AssignStmt:
			if x.Tok == token.DEFINE {
				for _, l := range x.Lhs {
					if id, ok := l.(*ast.Ident); ok {
						bound[id.Name] = true
					}
				}
			}
		case *ast.ValueSpec:
			for _, id := range x.Names {
				bound[id.Name] = true
			}
		case *ast.RangeStmt:
			if x.Tok == token.DEFINE {
				for _, e := range []ast.Expr{x.Key, x.Value} {
					if id, ok := e.(*ast.Ident); ok {
						bound[id.Name] = true
					}
				}
			}
		}
		return true
	})

	used := map[string]bool{}
	ast.Inspect(fn, func(n ast.Node) bool {
		switch x := n.(type) {
		case *ast.SelectorExpr:
			if id, ok := x.X.(*ast.Ident); ok && !bound[id.Name] {
				if _, isImport := imports[id.Name]; isImport {
					used[id.Name] = true
				}
			}
		case *ast.CallExpr:
			if id, ok := x.Fun.(*ast.Ident); ok && id.Name == name && !bound[name] {
				id.Name = exported // recursive self reference
			}
		}
		return true
	})
	fn.Name.Name = exported
	fn.Doc = nil

	var body bytes.Buffer
	if err := printer.Fprint(&body, fset, fn); err != nil {
		die("print: %v", err)
	}

	var b bytes.Buffer
	fmt.Fprintf(&b, "// Code generated at check time from %s (func %s); DO NOT EDIT.\n\n", filepath.Base(src), name)
	fmt.Fprintf(&b, "package %s\n\n", filepath.Base(filepath.Dir(out)))
	var locals []string
	for l := range used {
		locals = append(locals, l)
	}
	sort.Strings(locals)
	if len(locals) > 0 {
		b.WriteString("import (\n")
		for _, l := range locals {
			if filepath.Base(imports[l]) == l {
				fmt.Fprintf(&b, "\t%q\n", imports[l])
			} else {
				fmt.Fprintf(&b, "\t%s %q\n", l, imports[l])
			}
		}
		b.WriteString(")\n\n")
	}
	fmt.Fprintf(&b, "// %s is the body of %s, copied verbatim.\n", exported, name)
	b.Write(body.Bytes())
	b.WriteString("\n")
	outb, err := format.Source(b.Bytes())
	if err != nil {
		die("format generated source: %v\n%s", err, b.Bytes())
	}
	if err := os.MkdirAll(filepath.Dir(out), 0o755); err != nil {
		die("%v", err)
	}
	if err := os.WriteFile(out, outb, 0o644); err != nil {
		die("%v", err)
	}
}
