package c29

// C29: producer sequence numbers wrap modulo 2^31, in the client and in kfake.
//
// Client side: incrementSequence (pkg/kgo/sink.go) is copied out of the tree under test
// by name at check time (./gen, see check.json "pregen") and compared with the oracle
// (s+n) mod 2^31 computed in 64-bit arithmetic.
//
// kfake side (hook-free): a real kfake cluster is driven with hand-crafted v2
// RecordBatches inside raw kmsg.ProduceRequests; kgo.Client is used only as a transport
// (Broker.Request, no retries). kfake trusts the batch header's NumRecords, so a batch
// "of n records" costs one tiny record regardless of n.

import (
	"context"
	"fmt"
	"hash/crc32"
	"sync"
	"testing"

	"github.com/twmb/franz-go/pkg/kerr"
	"github.com/twmb/franz-go/pkg/kfake"
	"github.com/twmb/franz-go/pkg/kgo"
	"github.com/twmb/franz-go/pkg/kmsg"
	"pgregory.net/rapid"

	"verif/h/c29/extracted"
	"verif/h/ev"
)

func TestMain(m *testing.M) { ev.Main(m, "C29") }

const two31 = int64(1) << 31

// oracle: the sequence after a batch of n records starting at s.
func nextSeq(s, n int64) int64 { return (s + n) % two31 }

// ---------------------------------------------------------------------------------
// generators (shared by both sides)
// ---------------------------------------------------------------------------------

// genCount draws n in [lo, hi] (1 <= lo <= hi < 2^31) with weight on both ends.
func genCount(t *rapid.T, label string, lo, hi int64) int64 {
	if lo >= hi {
		return lo
	}
	switch rapid.IntRange(0, 5).Draw(t, label+"-kind") {
	case 0: // small
		return lo + rapid.Int64Range(0, min64(16, hi-lo)).Draw(t, label)
	case 1: // close to the top
		return hi - rapid.Int64Range(0, min64(16, hi-lo)).Draw(t, label)
	case 2: // around a power of two
		sh := rapid.IntRange(1, 30).Draw(t, label+"-shift")
		v := int64(1)<<sh + rapid.Int64Range(-2, 2).Draw(t, label)
		if v < lo {
			v = lo
		}
		if v > hi {
			v = hi
		}
		return v
	default:
		return rapid.Int64Range(lo, hi).Draw(t, label)
	}
}

func min64(a, b int64) int64 {
	if a < b {
		return a
	}
	return b
}

// genSN draws (s, n), s in [0,2^31), n in [1,2^31), dense around s+n = 2^31.
func genSN(t *rapid.T, label string) (s, n int64) {
	switch rapid.IntRange(0, 9).Draw(t, label+"-class") {
	case 0, 1, 2, 3: // s+n = 2^31 + d, |d| <= 4
		d := rapid.Int64Range(-4, 4).Draw(t, label+"-d")
		total := two31 + d
		lo := d + 1
		if lo < 1 {
			lo = 1
		}
		n = genCount(t, label+"-n", lo, min64(two31-1, total))
		s = total - n
	case 4, 5: // s at the very top
		s = two31 - 1 - rapid.Int64Range(0, 3).Draw(t, label+"-e")
		n = genCount(t, label+"-n", 1, two31-1)
	case 6: // n at the very top
		n = two31 - 1 - rapid.Int64Range(0, 3).Draw(t, label+"-e")
		s = rapid.Int64Range(0, two31-1).Draw(t, label+"-s")
	case 7, 8: // anything
		s = rapid.Int64Range(0, two31-1).Draw(t, label+"-s")
		n = genCount(t, label+"-n", 1, two31-1)
	default: // small, far from the wrap
		s = rapid.Int64Range(0, 1000).Draw(t, label+"-s")
		n = rapid.Int64Range(1, 1000).Draw(t, label+"-n")
	}
	if s < 0 || s >= two31 || n < 1 || n >= two31 {
		panic(fmt.Sprintf("generator bug: s=%d n=%d", s, n))
	}
	return s, n
}

// ---------------------------------------------------------------------------------
// client side
// ---------------------------------------------------------------------------------

func checkClient(t tb, s, n int64) {
	got := int64(extracted.IncrementSequence(int32(s), int32(n)))
	if want := nextSeq(s, n); got != want {
		msg := fmt.Sprintf("client incrementSequence(%d, %d) = %d, want (s+n) mod 2^31 = %d", s, n, got, want)
		ev.Replay("c29-client.txt", msg)
		t.Fatalf("%s", msg)
	}
}

// boundary values of [lo, 2^31): a band at both ends and around every power of two.
func boundaryValues(lo int64, band int64) []int64 {
	seen := map[int64]bool{}
	var out []int64
	add := func(v int64) {
		if v >= lo && v < two31 && !seen[v] {
			seen[v] = true
			out = append(out, v)
		}
	}
	for i := int64(0); i < band; i++ {
		add(lo + i)
		add(two31 - 1 - i)
	}
	for sh := uint(1); sh <= 31; sh++ {
		for d := int64(-3); d <= 3; d++ {
			add(int64(1)<<sh + d)
		}
	}
	return out
}

// TestClientSweep: full cross product of boundary values of s and n (every pair with s
// and n within `band` of 0 / 2^31 and around powers of two). The thorough tier widens
// the band and shards the rows.
func TestClientSweep(t *testing.T) {
	band := int64(1024)
	if ev.Thorough() {
		band = 16384
	}
	ss, ns := boundaryValues(0, band), boundaryValues(1, band)
	sh, nsh := ev.Shard()
	var evals, wraps int64
	for i, s := range ss {
		if i%nsh != sh {
			continue
		}
		for _, n := range ns {
			checkClient(t, s, n)
			evals++
			if s+n >= two31-2 {
				wraps++
				if wraps%4099 == 1 { // a spread of digests; the bulk is counted, not hashed
					ev.Nontrivial(fmt.Sprintf("client:%d:%d", s, n))
				}
			}
		}
	}
	ev.Evals(evals)
	ev.ClassN("client_sweep_pairs", evals)
	ev.ClassN("client_sweep_pairs_at_or_past_wrap", wraps)
	ev.Extra("client_sweep_band", band)
}

func TestClientRapid(t *testing.T) {
	rapid.Check(t, func(t *rapid.T) {
		s, n := genSN(t, "sn")
		checkClient(t, s, n)
		nt := s+n >= two31-2
		ev.Case(fmt.Sprintf("client:%d:%d", s, n), nt)
		if nt {
			ev.Class("client_rapid_at_or_past_wrap")
		} else {
			ev.Class("client_rapid_below_wrap")
		}
	})
}

// ---------------------------------------------------------------------------------
// kfake side
// ---------------------------------------------------------------------------------

type transport struct {
	c       *kfake.Cluster
	cl      *kgo.Client
	br      *kgo.Broker
	topicID [16]byte
}

var (
	trOnce sync.Once
	tr     *transport
	trErr  error
)

const topic = "t"

func getTransport(t tb) *transport {
	trOnce.Do(func() {
		c, err := kfake.NewCluster(kfake.NumBrokers(1), kfake.SeedTopics(1, topic))
		if err != nil {
			trErr = err
			return
		}
		cl, err := kgo.NewClient(kgo.SeedBrokers(c.ListenAddrs()...))
		if err != nil {
			trErr = err
			return
		}
		mreq := kmsg.NewPtrMetadataRequest()
		mt := kmsg.NewMetadataRequestTopic()
		mt.Topic = kmsg.StringPtr(topic)
		mreq.Topics = append(mreq.Topics, mt)
		mresp, err := mreq.RequestWith(context.Background(), cl)
		if err != nil {
			trErr = err
			return
		}
		if len(mresp.Topics) != 1 || mresp.Topics[0].ErrorCode != 0 || len(mresp.Topics[0].Partitions) != 1 {
			trErr = fmt.Errorf("unexpected metadata response %+v", mresp.Topics)
			return
		}
		tr = &transport{c: c, cl: cl, topicID: mresp.Topics[0].TopicID}
		tr.br = cl.Broker(int(mresp.Topics[0].Partitions[0].Leader))
	})
	if trErr != nil {
		infra(t, "kfake/transport setup: %v", trErr)
	}
	return tr
}

// infra reports a transport-level problem: never a property violation.
func infra(t tb, format string, a ...any) {
	t.Helper()
	fmt.Printf("VERIF-INFRA: "+format+"\n", a...)
	t.Fatalf("VERIF-INFRA: "+format, a...)
}

var castagnoli = crc32.MakeTable(crc32.Castagnoli)

// one real record; its bytes are shared by all batches
var oneRecord = func() []byte {
	r := kmsg.Record{Value: []byte("v")}
	body := r.AppendTo(nil) // Length 0 encodes as one byte
	r.Length = int32(len(body) - 1)
	return r.AppendTo(nil)
}()

// craftBatch builds a v2 RecordBatch whose header claims n records starting at
// sequence firstSeq.
func craftBatch(pid int64, epoch int16, firstSeq, n int32) []byte {
	b := kmsg.RecordBatch{
		FirstOffset:          0,
		PartitionLeaderEpoch: -1,
		Magic:                2,
		Attributes:           0,
		LastOffsetDelta:      n - 1,
		FirstTimestamp:       1600000000000,
		MaxTimestamp:         1600000000000,
		ProducerID:           pid,
		ProducerEpoch:        epoch,
		FirstSequence:        firstSeq,
		NumRecords:           n,
		Records:              oneRecord,
	}
	raw := b.AppendTo(nil)
	b.Length = int32(len(raw) - 12)
	b.CRC = int32(crc32.Checksum(raw[21:], castagnoli))
	return b.AppendTo(raw[:0])
}

func (x *transport) initPID(t tb) (int64, int16) {
	req := kmsg.NewPtrInitProducerIDRequest()
	req.ProducerID, req.ProducerEpoch = -1, -1
	kresp, err := x.br.Request(context.Background(), req)
	if err != nil {
		infra(t, "InitProducerID: %v", err)
	}
	resp := kresp.(*kmsg.InitProducerIDResponse)
	if resp.ErrorCode != 0 {
		infra(t, "InitProducerID error code %d", resp.ErrorCode)
	}
	return resp.ProducerID, resp.ProducerEpoch
}

// produce sends one crafted batch and returns (error code, base offset).
func (x *transport) produce(t tb, pid int64, epoch int16, firstSeq, n int64) (int16, int64) {
	req := kmsg.NewPtrProduceRequest()
	req.Acks = -1
	req.TimeoutMillis = 10000
	rt := kmsg.NewProduceRequestTopic()
	rt.Topic, rt.TopicID = topic, x.topicID
	rp := kmsg.NewProduceRequestTopicPartition()
	rp.Partition = 0
	rp.Records = craftBatch(pid, epoch, int32(firstSeq), int32(n))
	rt.Partitions = append(rt.Partitions, rp)
	req.Topics = append(req.Topics, rt)
	kresp, err := x.br.Request(context.Background(), req)
	if err != nil {
		infra(t, "Produce: %v", err)
	}
	resp := kresp.(*kmsg.ProduceResponse)
	if len(resp.Topics) != 1 || len(resp.Topics[0].Partitions) != 1 {
		infra(t, "Produce: response shape %+v", resp.Topics)
	}
	p := resp.Topics[0].Partitions[0]
	return p.ErrorCode, p.BaseOffset
}

func (x *transport) logEnd(t tb) int64 {
	req := kmsg.NewPtrListOffsetsRequest()
	req.ReplicaID = -1
	rt := kmsg.NewListOffsetsRequestTopic()
	rt.Topic = topic
	rp := kmsg.NewListOffsetsRequestTopicPartition()
	rp.Partition = 0
	rp.Timestamp = -1
	rp.CurrentLeaderEpoch = -1
	rt.Partitions = append(rt.Partitions, rp)
	req.Topics = append(req.Topics, rt)
	kresp, err := x.br.Request(context.Background(), req)
	if err != nil {
		infra(t, "ListOffsets: %v", err)
	}
	resp := kresp.(*kmsg.ListOffsetsResponse)
	if len(resp.Topics) != 1 || len(resp.Topics[0].Partitions) != 1 || resp.Topics[0].Partitions[0].ErrorCode != 0 {
		infra(t, "ListOffsets: response %+v", resp.Topics)
	}
	return resp.Topics[0].Partitions[0].Offset
}

type sent struct{ s, n, base int64 }

// chainRepeats reports whether two batches of the in-sequence chain starting at s0 with
// the given counts carry the same (first sequence, count).
func chainRepeats(s0 int64, ns []int64) bool {
	type sn struct{ s, n int64 }
	seen := map[sn]bool{}
	s := s0
	for _, n := range ns {
		if seen[sn{s, n}] {
			return true
		}
		seen[sn{s, n}] = true
		s = nextSeq(s, n)
	}
	return false
}

// TestKfakeWindow: per case a fresh producer id. A chain of 1..3 in-sequence batches is
// accepted (the first may carry any sequence), the last one placed densely around the
// wrap; then exactly one of {correctly wrapped next batch, resend of a chain batch, any
// other sequence} is sent and the response and the log end are compared with the model.
func TestKfakeWindow(t *testing.T) {
	x := getTransport(t)
	oooSN := kerr.OutOfOrderSequenceNumber.Code
	rapid.Check(t, func(t *rapid.T) {
		// ---- draw the whole plan first
		k := rapid.SampledFrom([]int{1, 1, 2, 2, 3}).Draw(t, "chain")
		sLast, nLast := genSN(t, "last")
		ns := make([]int64, k)
		ns[k-1] = nLast
		back := int64(0)
		for i := 0; i < k-1; i++ {
			ns[i] = genCount(t, fmt.Sprintf("n%d", i), 1, two31-1)
			back += ns[i]
		}
		if k >= 2 && rapid.IntRange(0, 7).Draw(t, "full-circle") == 0 {
			// the last two counts add up to 2^31: the sequence after the chain equals
			// the first sequence of the second-to-last batch
			back += (two31 - nLast) - ns[k-2]
			ns[k-2] = two31 - nLast
			ev.Class("plan_last_two_counts_sum_to_2^31")
		}
		s0 := ((sLast-back)%two31 + two31) % two31
		// A batch is recognised as a resend by (first sequence, count), in Kafka as in
		// kfake. With counts near 2^31 a chain can come back to an earlier first sequence
		// within the duplicate window; if two chain batches would then carry the same
		// (first sequence, count) the later one IS a duplicate by definition, not a new
		// batch. Such plans are reduced to the single last batch.
		if chainRepeats(s0, ns) {
			k, ns, s0 = 1, []int64{nLast}, sLast
			ev.Class("plan_reduced_chain_would_repeat_a_batch")
		}
		action := rapid.SampledFrom([]string{"next", "next", "dup", "bad", "bad", "bad"}).Draw(t, "action")
		dupIdx := rapid.IntRange(0, k-1).Draw(t, "dup-index")
		if rapid.Bool().Draw(t, "dup-last") {
			dupIdx = k - 1
		}
		badKind := rapid.SampledFrom([]string{"mod-2^31-1", "plus1", "minus1", "zero", "random", "same-first-other-count", "first-of-chain"}).Draw(t, "bad-kind")
		badRandom := rapid.Int64Range(0, two31-1).Draw(t, "bad-random")
		badCount := genCount(t, "bad-n", 1, two31-1)
		followUp := rapid.Bool().Draw(t, "follow-up-with-correct-next")
		nextCount := genCount(t, "next-n", 1, two31-1)

		// ---- run
		pid, epoch := x.initPID(t)
		end := x.logEnd(t)
		chain := make([]sent, 0, k)
		s := s0
		for i := 0; i < k; i++ {
			code, base := x.produce(t, pid, epoch, s, ns[i])
			if code != 0 || base != end {
				t.Fatalf("chain batch %d (firstSeq=%d n=%d) of %v: error code %d base offset %d; want accepted at log end %d", i, s, ns[i], ns, code, base, end)
			}
			chain = append(chain, sent{s, ns[i], base})
			end += ns[i]
			s = nextSeq(s, ns[i])
		}
		if s != nextSeq(sLast, nLast) || chain[k-1].s != sLast {
			panic("harness bug: chain does not end at the drawn (s, n)")
		}
		if got := x.logEnd(t); got != end {
			t.Fatalf("log end %d after accepted chain %v, want %d", got, chain, end)
		}
		correct := s
		wrap := sLast+nLast >= two31
		nt := sLast+nLast >= two31-2
		digest := fmt.Sprintf("kfake:%d:%v:%s", s0, ns, action)

		// same reasoning for the batch that follows the chain: it must not be
		// indistinguishable from a chain batch
		for again := true; again; {
			again = false
			for _, c := range chain {
				if c.s == correct && c.n == nextCount {
					nextCount = nextCount%(two31-1) + 1
					again = true
				}
			}
		}
		sendCorrectNext := func(why string) {
			code, base := x.produce(t, pid, epoch, correct, nextCount)
			if code != 0 || base != end {
				t.Fatalf("%s: next batch firstSeq=%d (= (%d+%d) mod 2^31) n=%d after chain %v: error code %d (%v) base offset %d; want accepted at %d", why, correct, sLast, nLast, nextCount, chain, code, kerr.ErrorForCode(code), base, end)
			}
			end += nextCount
			if got := x.logEnd(t); got != end {
				t.Fatalf("%s: log end %d after accepted next batch, want %d", why, got, end)
			}
		}

		switch action {
		case "next":
			sendCorrectNext("correctly wrapped next batch")
			ev.Class("action_next")
		case "dup":
			d := chain[dupIdx]
			code, base := x.produce(t, pid, epoch, d.s, d.n)
			if code != 0 || base != d.base {
				t.Fatalf("resend of chain[%d]=(firstSeq=%d n=%d base=%d) after chain %v: error code %d (%v) base offset %d; want no error and the original base offset", dupIdx, d.s, d.n, d.base, chain, code, kerr.ErrorForCode(code), base)
			}
			if got := x.logEnd(t); got != end {
				t.Fatalf("log end moved from %d to %d on a duplicate of (firstSeq=%d n=%d)", end, got, d.s, d.n)
			}
			digest += fmt.Sprintf(":%d", dupIdx)
			ev.Class("action_dup")
			if dupIdx != k-1 {
				ev.Class("action_dup_of_earlier_chain_batch")
			}
		case "bad":
			var f int64
			switch badKind {
			case "mod-2^31-1":
				f = (sLast + nLast) % (two31 - 1)
			case "plus1":
				f = (correct + 1) % two31
			case "minus1":
				f = (correct - 1 + two31) % two31
			case "zero":
				f = 0
			case "random":
				f = badRandom
			case "same-first-other-count":
				f = sLast
			case "first-of-chain":
				f = s0
			}
			m := badCount
			if f == correct {
				// the kind collapsed onto the correct sequence: move one off
				f = (correct + 1) % two31
				badKind += "->plus1"
			}
			for again := true; again; { // must not be a resend of a chain batch
				again = false
				for _, c := range chain {
					if c.s == f && c.n == m {
						m = m%(two31-1) + 1
						again = true
					}
				}
			}
			code, _ := x.produce(t, pid, epoch, f, m)
			if code != oooSN {
				t.Fatalf("batch firstSeq=%d n=%d (%s) after chain %v (expected next sequence %d): error code %d (%v); want OUT_OF_ORDER_SEQUENCE_NUMBER", f, m, badKind, chain, correct, code, kerr.ErrorForCode(code))
			}
			if got := x.logEnd(t); got != end {
				t.Fatalf("log end moved from %d to %d on a rejected batch firstSeq=%d n=%d", end, got, f, m)
			}
			digest += fmt.Sprintf(":%d:%d", f, m)
			ev.Class("action_bad_" + badKind)
		}
		if action != "next" && followUp {
			sendCorrectNext("after a " + action + " batch")
			ev.Class("follow_up_next_after_" + action)
		}

		ev.Case(digest, nt)
		ev.Class(fmt.Sprintf("chain_len_%d", k))
		switch {
		case sLast+nLast == two31:
			ev.Class("last_sum_exactly_2^31")
		case wrap:
			ev.Class("last_sum_past_2^31")
		case nt:
			ev.Class("last_sum_2^31-2_or_-1")
		default:
			ev.Class("last_sum_below_wrap")
		}
		ev.SampleIf(func() any {
			return map[string]any{"first_seq": s0, "counts": ns, "action": action, "expected_next_seq": correct, "log_end_after": end, "bad_kind": badKind}
		})
	})
}

// tb is what both *testing.T and *rapid.T offer.
type tb interface {
	Helper()
	Fatalf(format string, args ...any)
}
