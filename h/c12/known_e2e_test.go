package c12

import (
	"encoding/json"
	"os"
	"sync"

	"verif/h/ev"
)

// Open finding of the end-to-end part (listed in $VERIF_KNOWN under this key). Record.Ack
// appends one pending entry per successful call, so Ack(AckRenew) followed by Ack(AckAccept)
// (or reject) on one record leaves two entries that share one state; they are coalesced only
// when the acknowledgement ranges of ONE request are built. If the source goroutine drains the
// first entry before the second call appends its own, but builds the ranges after that call
// has overwritten the shared status, both requests carry the terminal type: the broker sees
// two accepts (or rejects) for one delivery. Seen with a single member and no faults:
// ShareAcknowledge p1 0..0 [accept] followed by ShareFetch p1 0..0 [accept] at one instant
// (thorough seed 1, shard 7). The window is a few instructions wide and depends on real
// scheduling, so there is no deterministic witness; the exclusion below is limited to records
// that were acknowledged renew-then-terminal in the generated plan and is active only while
// the finding is listed as open. Repairing it needs per-state bookkeeping of what was already
// sent that also has to be undone when a failed request requeues its entries.
const knownSplitRenewKey = "renew-then-terminal-acks-of-one-record-split-across-two-requests-both-terminal"

var (
	splitOnce   sync.Once
	splitActive bool
)

func knownSplitRenew() bool {
	splitOnce.Do(func() {
		raw, err := os.ReadFile(os.Getenv("VERIF_KNOWN"))
		if err != nil {
			return
		}
		var k struct {
			Findings []struct {
				Property string `json:"property"`
				Key      string `json:"key"`
				Status   string `json:"status"`
			} `json:"findings"`
		}
		if json.Unmarshal(raw, &k) != nil {
			return
		}
		for _, f := range k.Findings {
			if f.Property == "C12" && f.Key == knownSplitRenewKey && f.Status == "open" {
				splitActive = true
			}
		}
		if splitActive {
			ev.KnownFinding("C12", knownSplitRenewKey+": Ack(AckRenew) then Ack(AckAccept) on one record can reach the broker as two accepts when the first pending entry is drained between the two calls (schedule dependent; observed ShareAcknowledge p1 0..0 [1] then ShareFetch p1 0..0 [1], single member, no faults)")
		}
	})
	return splitActive
}
