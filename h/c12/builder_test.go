package c12

// C12 part (a): the share consumer's acknowledgement range builder
// (pkg/kgo/consumer_share.go buildAckRanges, reached through the verif hook
// kgo.VerifBuildAckRanges) against a per-offset reference model.
//
// What the property states for the builder: "Acknowledgement batches sent for a
// partition are in ascending, non-overlapping offset order" and "each delivered record
// is acknowledged to the broker at most once with a final outcome", over "all mixes of
// pending user acknowledgements and gap ranges for a partition".
//
// Oracle (bldCheck): the emitted ranges have First<=Last, are strictly ascending and
// non-overlapping; the offsets they cover are exactly the offsets of the entries whose
// final status is non-zero (each once, with that status) plus every offset of every
// gap range (with the gap's type); hasRenew is true iff an emitted offset has the
// renew status. Coalescing is not asserted.

import (
	"fmt"
	"sort"
	"strings"
	"testing"

	"github.com/twmb/franz-go/pkg/kgo"
	"pgregory.net/rapid"

	"verif/h/ev"
)

const (
	bldAccept  = int8(kgo.AckAccept)
	bldRelease = int8(kgo.AckRelease)
	bldReject  = int8(kgo.AckReject)
	bldRenew   = int8(kgo.AckRenew)
)

type bldCase struct {
	Entries []kgo.VerifAckEntry
	Gaps    []kgo.VerifAckRange
}

func (c bldCase) String() string {
	var sb strings.Builder
	sb.WriteString("entries[")
	for i, e := range c.Entries {
		if i > 0 {
			sb.WriteByte(' ')
		}
		fmt.Fprintf(&sb, "%d:%d", e.Offset, e.Status)
	}
	sb.WriteString("] gaps[")
	for i, g := range c.Gaps {
		if i > 0 {
			sb.WriteByte(' ')
		}
		fmt.Fprintf(&sb, "%d-%d/%d", g.First, g.Last, g.Type)
	}
	sb.WriteString("]")
	return sb.String()
}

func bldRangesString(rs []kgo.VerifAckRange) string {
	var sb strings.Builder
	for _, r := range rs {
		fmt.Fprintf(&sb, "[%d-%d/%d]", r.First, r.Last, r.Type)
	}
	return sb.String()
}

// bldModel is the reference: offset -> type that must be on the wire, and whether a
// renew is among them. The final status of an offset with several entries is the last
// one in insertion order (this is how the hook builds the one shared state).
func bldModel(c bldCase) (want map[int64]int8, wantRenew bool, nDup int, nZero int) {
	final := map[int64]int8{}
	count := map[int64]int{}
	for _, e := range c.Entries {
		final[e.Offset] = e.Status
		count[e.Offset]++
	}
	want = map[int64]int8{}
	for off, st := range final {
		if count[off] > 1 {
			nDup++
		}
		if st == 0 {
			nZero++
			continue
		}
		want[off] = st
		if st == bldRenew {
			wantRenew = true
		}
	}
	for _, g := range c.Gaps {
		for o := g.First; o <= g.Last; o++ {
			want[o] = g.Type
		}
	}
	return
}

// bldCheck returns "" if (out, hasRenew) is a correct answer for c.
func bldCheck(c bldCase, out []kgo.VerifAckRange, hasRenew bool) string {
	want, wantRenew, _, _ := bldModel(c)
	got := map[int64]int8{}
	for i, r := range out {
		if r.First > r.Last {
			return fmt.Sprintf("range %d has First %d > Last %d", i, r.First, r.Last)
		}
		if i > 0 && r.First <= out[i-1].Last {
			return fmt.Sprintf("ranges %d and %d are not ascending and non-overlapping: [%d-%d] then [%d-%d]", i-1, i, out[i-1].First, out[i-1].Last, r.First, r.Last)
		}
		for o := r.First; o <= r.Last; o++ {
			if _, dup := got[o]; dup {
				return fmt.Sprintf("offset %d is acknowledged twice", o)
			}
			got[o] = r.Type
		}
	}
	offs := make([]int64, 0, len(want)+len(got))
	for o := range want {
		offs = append(offs, o)
	}
	for o := range got {
		if _, ok := want[o]; !ok {
			offs = append(offs, o)
		}
	}
	sort.Slice(offs, func(i, j int) bool { return offs[i] < offs[j] })
	for _, o := range offs {
		w, wok := want[o]
		g, gok := got[o]
		switch {
		case wok && !gok:
			return fmt.Sprintf("offset %d (type %d) is missing from the output", o, w)
		case !wok && gok:
			return fmt.Sprintf("offset %d (type %d) is in the output but is neither a decided entry nor a gap", o, g)
		case w != g:
			return fmt.Sprintf("offset %d has type %d in the output, want %d", o, g, w)
		}
	}
	if hasRenew != wantRenew {
		return fmt.Sprintf("hasRenew=%v, want %v", hasRenew, wantRenew)
	}
	return ""
}

// bldRun calls the hook on copies (so a failing case can be printed as generated).
func bldRun(c bldCase) ([]kgo.VerifAckRange, bool) {
	es := append([]kgo.VerifAckEntry(nil), c.Entries...)
	gs := append([]kgo.VerifAckRange(nil), c.Gaps...)
	return kgo.VerifBuildAckRanges(es, gs)
}

// bldClassify bumps generator-health counters and returns the non-trivial flag.
func bldClassify(c bldCase, count bool) bool {
	want, wantRenew, nDup, nZero := bldModel(c)
	final := map[int64]int8{}
	for _, e := range c.Entries {
		final[e.Offset] = e.Status
	}
	minE, maxE, haveE := int64(0), int64(0), false
	for off, st := range final {
		if st == 0 {
			continue
		}
		if !haveE || off < minE {
			minE = off
		}
		if !haveE || off > maxE {
			maxE = off
		}
		haveE = true
	}
	below, between, above := false, false, false
	for _, g := range c.Gaps {
		switch {
		case !haveE:
		case g.Last < minE:
			below = true
		case g.First > maxE:
			above = true
		default:
			between = true
		}
	}
	interleave := below || between
	if count {
		cl := func(b bool, n string) {
			if b {
				ev.Class(n)
			}
		}
		cl(below, "gap_below_all_entries")
		cl(between, "gap_between_entries")
		cl(above, "gap_above_all_entries")
		cl(nDup > 0, "duplicate_offset")
		cl(nZero > 0, "zero_status_entry")
		cl(wantRenew, "has_renew")
		cl(len(want) == 0, "empty_expected_output")
		cl(len(c.Gaps) > 0 && !haveE, "gaps_only")
		cl(haveE && len(c.Gaps) == 0, "entries_only")
		insAsc := sort.SliceIsSorted(c.Entries, func(i, j int) bool { return c.Entries[i].Offset < c.Entries[j].Offset })
		cl(!insAsc, "entries_inserted_out_of_order")
		gapAsc := sort.SliceIsSorted(c.Gaps, func(i, j int) bool { return c.Gaps[i].First < c.Gaps[j].First })
		cl(!gapAsc, "gaps_inserted_out_of_order")
	}
	return interleave || nDup > 0
}

func bldFail(t testing.TB, name string, c bldCase, out []kgo.VerifAckRange, hasRenew bool, why string) {
	t.Helper()
	msg := fmt.Sprintf("C12 builder: %s\ninput:  %s\noutput: %s hasRenew=%v", why, c, bldRangesString(out), hasRenew)
	ev.Replay("c12-builder-"+name+".txt", msg)
	t.Fatalf("%s", msg)
}

// TestBuilderWitness: the fixed witnesses of the repaired defect (entries 10-12 with a
// gap 2-3 below them) and of the renew-then-terminal duplicate.
func TestBuilderWitness(t *testing.T) {
	cases := []bldCase{
		{Entries: []kgo.VerifAckEntry{{10, bldAccept}, {11, bldAccept}, {12, bldReject}}, Gaps: []kgo.VerifAckRange{{2, 3, 0}}},
		{Entries: []kgo.VerifAckEntry{{12, bldReject}, {10, bldAccept}, {11, bldAccept}}, Gaps: []kgo.VerifAckRange{{20, 21, 0}, {2, 3, 0}, {14, 14, 0}}},
		{Entries: []kgo.VerifAckEntry{{5, bldRenew}, {6, bldAccept}, {5, bldAccept}}},
		{Entries: []kgo.VerifAckEntry{{5, bldRenew}, {7, 0}, {6, bldRenew}}, Gaps: []kgo.VerifAckRange{{8, 9, 0}}},
		{},
	}
	for i, c := range cases {
		out, hr := bldRun(c)
		if why := bldCheck(c, out, hr); why != "" {
			bldFail(t, fmt.Sprintf("witness%d", i), c, out, hr, why)
		}
		ev.Case("w:"+c.String(), bldClassify(c, true))
		out2 := out
		ev.SampleIf(func() any {
			return map[string]any{"input": c.String(), "output": bldRangesString(out2), "hasRenew": hr}
		})
	}
}

// bldGen draws one case: a walk over offsets 0..40 in segments (absent / user entries /
// gap), statuses and duplicates per entry offset, gap segments cut into ranges, and
// independent insertion orders for entries and gaps.
func bldGen(t *rapid.T) bldCase {
	const maxOff = 40
	var c bldCase
	terminal := []int8{bldAccept, bldRelease, bldReject}
	off := int64(rapid.IntRange(0, 6).Draw(t, "start"))
	for off <= maxOff {
		kind := rapid.SampledFrom([]string{"absent", "entries", "entries", "gap", "gap"}).Draw(t, "segKind")
		n := int64(rapid.IntRange(1, 6).Draw(t, "segLen"))
		if off+n-1 > maxOff {
			n = maxOff - off + 1
		}
		switch kind {
		case "entries":
			for o := off; o < off+n; o++ {
				mode := rapid.IntRange(0, 9).Draw(t, "entryMode")
				switch {
				case mode == 0: // undecided / reset
					c.Entries = append(c.Entries, kgo.VerifAckEntry{Offset: o, Status: 0})
				case mode == 1: // renew then terminal
					c.Entries = append(c.Entries, kgo.VerifAckEntry{Offset: o, Status: bldRenew},
						kgo.VerifAckEntry{Offset: o, Status: rapid.SampledFrom(terminal).Draw(t, "terminal")})
				case mode == 2: // any short status sequence for one record
					k := rapid.IntRange(2, 3).Draw(t, "dupN")
					for i := 0; i < k; i++ {
						c.Entries = append(c.Entries, kgo.VerifAckEntry{Offset: o, Status: int8(rapid.IntRange(0, 4).Draw(t, "dupStatus"))})
					}
				default:
					c.Entries = append(c.Entries, kgo.VerifAckEntry{Offset: o, Status: int8(rapid.IntRange(1, 4).Draw(t, "status"))})
				}
			}
		case "gap":
			typ := int8(0)
			if rapid.IntRange(0, 5).Draw(t, "gapIsRelease") == 0 {
				typ = bldRelease // enqueueGaps also carries release ranges
			}
			first := off
			for o := off; o < off+n; o++ {
				if o == off+n-1 || rapid.IntRange(0, 2).Draw(t, "cut") == 0 {
					c.Gaps = append(c.Gaps, kgo.VerifAckRange{First: first, Last: o, Type: typ})
					first = o + 1
				}
			}
		}
		off += n
	}
	if len(c.Entries) > 1 {
		switch rapid.IntRange(0, 3).Draw(t, "entryOrder") {
		case 0: // as walked: ascending
		case 1:
			for i, j := 0, len(c.Entries)-1; i < j; i, j = i+1, j-1 {
				c.Entries[i], c.Entries[j] = c.Entries[j], c.Entries[i]
			}
		default:
			c.Entries = rapid.Permutation(c.Entries).Draw(t, "entryPerm")
		}
	}
	if len(c.Gaps) > 1 && rapid.IntRange(0, 2).Draw(t, "gapOrder") != 0 {
		c.Gaps = rapid.Permutation(c.Gaps).Draw(t, "gapPerm")
	}
	return c
}

func TestBuilderRandom(t *testing.T) {
	rapid.Check(t, func(t *rapid.T) {
		c := bldGen(t)
		out, hr := bldRun(c)
		nt := bldClassify(c, true)
		ev.Case(c.String(), nt)
		if nt {
			ev.SampleIf(func() any {
				return map[string]any{"input": c.String(), "output": bldRangesString(out), "hasRenew": hr}
			})
		}
		if why := bldCheck(c, out, hr); why != "" {
			t.Fatalf("C12 builder: %s\ninput:  %s\noutput: %s hasRenew=%v", why, c, bldRangesString(out), hr)
		}
	})
}

// TestBuilderExhaustive enumerates every role assignment over offsets 0..5
// (absent, entry with status 0..4, gap, renew-then-accept duplicate) under four
// insertion orders (quick) or all 720 insertion orders (thorough) and two gap splittings.
func TestBuilderExhaustive(t *testing.T) {
	const nOff = 6
	const nRoles = 8
	total := 1
	for i := 0; i < nOff; i++ {
		total *= nRoles
	}
	sh, nsh := ev.Shard()
	// a seed-derived permutation of 0..nOff-1 (pure function of the seed)
	perm := make([]int, nOff)
	for i := range perm {
		perm[i] = i
	}
	x := ev.Seed()*0x9E3779B97F4A7C15 + 0x1234567
	for i := nOff - 1; i > 0; i-- {
		x ^= x << 13
		x ^= x >> 7
		x ^= x << 17
		j := int(x % uint64(i+1))
		perm[i], perm[j] = perm[j], perm[i]
	}
	orders := [][]int{{0, 1, 2, 3, 4, 5}, {5, 4, 3, 2, 1, 0}, {1, 3, 5, 0, 2, 4}, perm}
	if ev.Thorough() {
		// every insertion order of the six offsets (the first one stays ascending: it is
		// the one the non-trivial configurations are counted on)
		orders = orders[:0]
		var rec func(cur []int, used int)
		rec = func(cur []int, used int) {
			if len(cur) == nOff {
				orders = append(orders, append([]int(nil), cur...))
				return
			}
			for o := 0; o < nOff; o++ {
				if used&(1<<o) == 0 {
					rec(append(cur, o), used|1<<o)
				}
			}
		}
		rec(nil, 0)
	}
	var evals, ntCount int64
	roles := make([]int, nOff)
	for cfg := 0; cfg < total; cfg++ {
		if cfg%nsh != sh {
			continue
		}
		v := cfg
		for i := 0; i < nOff; i++ {
			roles[i] = v % nRoles
			v /= nRoles
		}
		for oi, order := range orders {
			for split := 0; split < 2; split++ {
				var c bldCase
				for _, o := range order {
					switch r := roles[o]; {
					case r >= 1 && r <= 5:
						c.Entries = append(c.Entries, kgo.VerifAckEntry{Offset: int64(o), Status: int8(r - 1)})
					case r == 7:
						c.Entries = append(c.Entries, kgo.VerifAckEntry{Offset: int64(o), Status: bldRenew})
					}
				}
				for _, o := range order { // the terminal acks of the duplicates come later, as in real use
					if roles[o] == 7 {
						c.Entries = append(c.Entries, kgo.VerifAckEntry{Offset: int64(o), Status: bldAccept})
					}
				}
				// gap ranges: maximal runs (split 0) or single offsets (split 1), inserted following `order`
				var gaps []kgo.VerifAckRange
				for o := 0; o < nOff; o++ {
					if roles[o] != 6 {
						continue
					}
					if split == 0 && len(gaps) > 0 && gaps[len(gaps)-1].Last == int64(o-1) {
						gaps[len(gaps)-1].Last = int64(o)
						continue
					}
					gaps = append(gaps, kgo.VerifAckRange{First: int64(o), Last: int64(o), Type: 0})
				}
				pos := map[int]int{}
				for i, o := range order {
					pos[o] = i
				}
				sort.SliceStable(gaps, func(i, j int) bool { return pos[int(gaps[i].First)] < pos[int(gaps[j].First)] })
				c.Gaps = gaps
				out, hr := bldRun(c)
				if why := bldCheck(c, out, hr); why != "" {
					bldFail(t, "exhaustive", c, out, hr, why)
				}
				evals++
				if oi == 0 && split == 0 {
					if bldClassify(c, false) {
						ntCount++
						ev.Nontrivial("x:" + c.String())
					}
				}
			}
		}
	}
	ev.Evals(evals)
	ev.ClassN("exhaustive_configs_offsets_0_5", int64(total/nsh))
	ev.ClassN("exhaustive_builder_calls", evals)
	ev.ClassN("exhaustive_nontrivial_configs", ntCount)
	// ev.Exhaustive is not set: only this sub-space is enumerated completely, the 0..40 space is sampled
	ev.Extra("exhaustive_subspace", fmt.Sprintf("offsets 0..5 x roles {absent, status 0..4, gap, renew-then-accept} = 8^6 configurations x %d insertion orders x 2 gap splittings", len(orders)))
}
