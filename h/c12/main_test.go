package c12

import (
	"testing"

	"verif/h/ev"
)

// One TestMain for the whole C12 package (builder part (a) and the end-to-end part (b)).
func TestMain(m *testing.M) { ev.Main(m, "C12") }
