package c12

import (
	"context"
	"encoding/binary"
	"fmt"
	"os"
	"sort"
	"sync"
	"testing"
	"time"

	"github.com/twmb/franz-go/pkg/kfake"
	"github.com/twmb/franz-go/pkg/kgo"
	"github.com/twmb/franz-go/pkg/kmsg"
	"pgregory.net/rapid"

	"verif/h/bubble"
	"verif/h/ev"
)

// Part (b) of C12: share consumers on kfake fed by plain and transactional producers
// (every transaction marker is an acquired offset with no surfaced record, i.e. a gap
// range), explicit accepts / releases / rejects / renews, MarkAcks, FlushAcks, member
// restarts and leader moves.

type e2eStep struct {
	Delay  time.Duration
	Kind   string // produce | txproduce | poll | flush | restart | move | sleep
	N      int
	Commit bool
	Max    int
	Acks   []int // per polled record: 0 none, 1 accept, 2 release, 3 reject, 4 renew-then-accept, 5 renew only, 6 renew, then accept while the renew is still unanswered
	Mark   int   // after per-record acks: 0 nothing, 1 MarkAcks(accept) for the rest, 2 MarkAcks(release)
	Slot   int
	Node   int
	Dur    time.Duration
}

type e2ePlan struct {
	Brokers int
	Parts   int32
	Members int
	Steps   []e2eStep
}

func genE2E(t *rapid.T) e2ePlan {
	p := e2ePlan{Brokers: rapid.IntRange(1, 3).Draw(t, "brokers"), Parts: int32(rapid.IntRange(1, 2).Draw(t, "parts")), Members: rapid.IntRange(1, 2).Draw(t, "members")}
	n := rapid.IntRange(4, 24).Draw(t, "nsteps")
	kinds := []string{"produce", "produce", "txproduce", "txproduce", "poll", "poll", "poll", "poll", "flush", "restart", "sleep"}
	if p.Brokers > 1 && rapid.IntRange(0, 3).Draw(t, "moves") == 0 {
		kinds = append(kinds, "move") // leader moves weaken what can be asserted: a quarter of the multi-broker plans
	}
	for i := 0; i < n; i++ {
		s := e2eStep{Delay: rapid.SampledFrom([]time.Duration{0, 10 * time.Millisecond, 300 * time.Millisecond, 2 * time.Second}).Draw(t, "delay"), Kind: rapid.SampledFrom(kinds).Draw(t, "kind")}
		s.N = rapid.IntRange(1, 5).Draw(t, "n")
		s.Commit = rapid.Bool().Draw(t, "commit")
		s.Max = rapid.SampledFrom([]int{0, 2, 5}).Draw(t, "max")
		s.Acks = rapid.SliceOfN(rapid.IntRange(0, 6), 0, 10).Draw(t, "acks")
		s.Mark = rapid.IntRange(0, 2).Draw(t, "mark")
		s.Slot = rapid.IntRange(0, p.Members-1).Draw(t, "slot")
		s.Node = rapid.IntRange(0, p.Brokers-1).Draw(t, "node")
		s.Dur = rapid.SampledFrom([]time.Duration{time.Second, 6 * time.Second}).Draw(t, "dur")
		p.Steps = append(p.Steps, s)
	}
	if rapid.Bool().Draw(t, "endunacked") {
		// end with records delivered and left unacknowledged, so that Close has something to release
		p.Steps = append(p.Steps, e2eStep{Kind: "produce", N: rapid.IntRange(1, 5).Draw(t, "n")},
			e2eStep{Kind: "poll", Delay: 300 * time.Millisecond, Max: rapid.SampledFrom([]int{0, 2}).Draw(t, "max"), Acks: rapid.SliceOfN(rapid.IntRange(0, 6), 0, 3).Draw(t, "acks"), Slot: rapid.IntRange(0, p.Members-1).Draw(t, "slot")})
	}
	return p
}

type wireAck struct {
	n     int
	part  int32
	first int64
	last  int64
	typ   int8
}

type e2eMember struct {
	cl              *kgo.Client
	pendingTerminal map[int64]bool // accept/reject given, not yet covered by a clean FlushAcks
	lastRenewed     []e2eLoc       // records of the last poll acknowledged with a renew only
	lastUnacked     []int64        // delivered by the last poll and left without any (or only a renew) acknowledgement
	errs            int            // callback results with an error, ever
	errMark         int            // value of errs when pendingTerminal was last emptied
	cbDone          int            // callback results whose callback has returned
	wireBase        int            // user-ack (request, partition) pairs on the wire when this client instance started
}

type e2eLoc struct {
	part int32
	off  int64
}

func TestE2EShareAcks(t *testing.T) {
	knownSplitRenew() // prints the KNOWN-FINDING line while the finding is listed as open
	rapid.Check(t, func(rt *rapid.T) {
		p := genE2E(rt)
		if os.Getenv("VERIF_DEBUG") != "" {
			fmt.Fprintf(os.Stderr, "PLAN %+v\n", p)
		}
		var sawGapBelow, sawRenewThenTerminal, sawRenewThenMark, sawTerminalDuringRenew, moved, sawAutoAccept, sawCloseRelease bool
		nearLimit := 0
		bubble.Run(t, rt, func(e *bubble.Env) {
			e.StartCluster(bubble.ClusterOpts{Brokers: p.Brokers, Topics: map[string]int32{"sh": p.Parts},
				// no acquisition lock expires inside a plan: every redelivery is caused by an explicit release or a close
				Extra: []kfake.Opt{kfake.BrokerConfigs(map[string]string{"group.share.record.lock.duration.ms": "3600000"})}})
			ctx := context.Background()
			var mu sync.Mutex
			var orderViolation string
			var wire []wireAck
			wireTerminal := map[e2eLoc]int{}   // accept/reject acknowledgements seen by the broker per offset
			wireCovered := map[e2eLoc][]int8{} // every acknowledgement type seen per offset
			wireUserReqs := 0                  // (request, partition) pairs carrying at least one accept/release/reject/renew
			type bt = struct {
				first, last int64
				types       []int8
			}
			observe := func(kind string, part int32, batches []bt) {
				prevEnd := int64(-1)
				user := false
				for i, b := range batches {
					if b.first > b.last || (i > 0 && b.first <= prevEnd) {
						if orderViolation == "" {
							orderViolation = fmt.Sprintf("%s for partition %d carries acknowledgement batches that are not ascending and non-overlapping: %v", kind, part, batches)
						}
					}
					prevEnd = b.last
					typ := int8(-1)
					if len(b.types) > 0 {
						typ = b.types[0]
					}
					if b.last-b.first < 1<<16 {
						for off := b.first; off <= b.last; off++ {
							ty := typ
							if len(b.types) > 1 && int(off-b.first) < len(b.types) {
								ty = b.types[off-b.first]
							}
							l := e2eLoc{part, off}
							wireCovered[l] = append(wireCovered[l], ty)
							if ty == 1 || ty == 3 {
								wireTerminal[l]++
							}
							if ty >= 1 && ty <= 4 {
								user = true
							}
						}
					}
					wire = append(wire, wireAck{n: e.Log.Add("wire-ack", b.first, fmt.Sprintf("%s p%d %d..%d type %v", kind, part, b.first, b.last, b.types), nil, 0, 0), part: part, first: b.first, last: b.last, typ: typ})
				}
				if user {
					wireUserReqs++
				}
			}
			e.Cluster.ControlKey(int16(kmsg.ShareFetch), func(kreq kmsg.Request) (kmsg.Response, error, bool) {
				e.Cluster.KeepControl()
				mu.Lock()
				defer mu.Unlock()
				for _, t := range kreq.(*kmsg.ShareFetchRequest).Topics {
					for _, pp := range t.Partitions {
						var bs []bt
						for _, b := range pp.AcknowledgementBatches {
							bs = append(bs, bt{b.FirstOffset, b.LastOffset, b.AcknowledgeTypes})
						}
						if len(bs) > 0 {
							observe("ShareFetch", pp.Partition, bs)
						}
					}
				}
				return nil, nil, false
			})
			e.Cluster.ControlKey(int16(kmsg.ShareAcknowledge), func(kreq kmsg.Request) (kmsg.Response, error, bool) {
				e.Cluster.KeepControl()
				mu.Lock()
				defer mu.Unlock()
				for _, t := range kreq.(*kmsg.ShareAcknowledgeRequest).Topics {
					for _, pp := range t.Partitions {
						var bs []bt
						for _, b := range pp.AcknowledgementBatches {
							bs = append(bs, bt{b.FirstOffset, b.LastOffset, b.AcknowledgeTypes})
						}
						if len(bs) > 0 {
							observe("ShareAcknowledge", pp.Partition, bs)
						}
					}
				}
				return nil, nil, false
			})
			prod := e.NewClient(kgo.RecordPartitioner(kgo.ManualPartitioner()), kgo.ProducerLinger(0))
			tx := e.NewClient(kgo.TransactionalID("c12tx"), kgo.RecordPartitioner(kgo.ManualPartitioner()), kgo.ProducerLinger(0), kgo.TransactionTimeout(5*time.Minute))
			var nextID int64
			mk := func(n int) []*kgo.Record {
				var rs []*kgo.Record
				for i := 0; i < n; i++ {
					nextID++
					v := make([]byte, 8)
					binary.BigEndian.PutUint64(v, uint64(nextID))
					rs = append(rs, &kgo.Record{Topic: "sh", Partition: int32(nextID % int64(p.Parts)), Value: v})
				}
				return rs
			}
			var cbErrs []string
			members := make([]*e2eMember, p.Members)
			newClient := func(m *e2eMember, name string) *kgo.Client {
				return e.NewClient(kgo.ClientID(name), kgo.ShareGroup("sg12"), kgo.ConsumeTopics("sh"), kgo.FetchMaxWait(200*time.Millisecond),
					kgo.ShareAckCallback(func(_ *kgo.Client, res kgo.ShareAckResults) {
						// a slow callback: FlushAcks must still wait for it to return
						time.Sleep(50 * time.Millisecond)
						mu.Lock()
						for _, r := range res {
							if r.Err != nil {
								m.errs++
								cbErrs = append(cbErrs, fmt.Sprintf("%s %s/%d: %v", name, r.Topic, r.Partition, r.Err))
							}
						}
						m.cbDone += len(res)
						mu.Unlock()
					}))
			}
			for i := range members {
				members[i] = &e2eMember{pendingTerminal: map[int64]bool{}}
				members[i].cl = newClient(members[i], fmt.Sprintf("share-%d", i))
			}
			finalByID := map[int64]int8{} // last terminal status the application gave: 1 accept, 3 reject
			terminalFlushed := map[int64]bool{}
			where := map[int64]e2eLoc{}
			delivered := map[e2eLoc]int{}
			renewThenTerminal := map[e2eLoc]bool{}
			deliveredAfterFinal := ""
			fail := func(format string, a ...any) {
				rt.Fatalf("%s\nplan: %+v\nack callback errors: %v\nhistory tail:\n%s", fmt.Sprintf(format, a...), p, cbErrs, e.Log.Dump(80))
			}
			idOf := func(r *kgo.Record) int64 { return int64(binary.BigEndian.Uint64(r.Value)) }
			see := func(r *kgo.Record) int64 {
				id := idOf(r)
				where[id] = e2eLoc{r.Partition, r.Offset}
				delivered[e2eLoc{r.Partition, r.Offset}]++
				if terminalFlushed[id] && deliveredAfterFinal == "" {
					deliveredAfterFinal = fmt.Sprintf("record %d (offset %d of partition %d) was delivered again after its accept/reject had been flushed and confirmed without error", id, r.Offset, r.Partition)
				}
				return id
			}
			poll := func(m *e2eMember, max int, acks []int, mark int) {
				pc, cancel := context.WithTimeout(ctx, time.Second)
				var fs kgo.Fetches
				if max > 0 {
					fs = m.cl.PollRecords(pc, max)
				} else {
					fs = m.cl.PollFetches(pc)
				}
				cancel()
				// the previous poll's unacknowledged records were accepted by this poll
				for _, id := range m.lastUnacked {
					finalByID[id] = 1
					m.pendingTerminal[id] = true
					sawAutoAccept = true
				}
				// a renew followed by the implicit accept of the next poll is renew-then-terminal too
				// (two pending entries sharing one state, see known_e2e_test.go)
				for _, l := range m.lastRenewed {
					renewThenTerminal[l] = true
				}
				m.lastUnacked, m.lastRenewed = nil, nil
				i := 0
				var rest []int64
				fs.EachRecord(func(r *kgo.Record) {
					id := see(r)
					a := 0
					if i < len(acks) {
						a = acks[i]
					}
					i++
					switch a {
					case 1:
						r.Ack(kgo.AckAccept)
						finalByID[id] = 1
						m.pendingTerminal[id] = true
					case 2:
						r.Ack(kgo.AckRelease)
						delete(m.pendingTerminal, id)
					case 3:
						r.Ack(kgo.AckReject)
						finalByID[id] = 3
						m.pendingTerminal[id] = true
					case 4:
						r.Ack(kgo.AckRenew)
						r.Ack(kgo.AckAccept)
						finalByID[id] = 1
						m.pendingTerminal[id] = true
						sawRenewThenTerminal = true
						renewThenTerminal[e2eLoc{r.Partition, r.Offset}] = true
					case 6:
						// the terminal acknowledgement arrives while the renew is on the wire: the broker's
						// answer to the next ShareAcknowledge is held for 300 ms, the accept follows 50 ms
						// after the renew
						e.Net.AddRuleNext(int16(kmsg.ShareAcknowledge), bubble.DelayResponse, 300*time.Millisecond)
						r.Ack(kgo.AckRenew)
						time.Sleep(50 * time.Millisecond)
						r.Ack(kgo.AckAccept)
						finalByID[id] = 1
						m.pendingTerminal[id] = true
						sawTerminalDuringRenew = true
					case 5:
						r.Ack(kgo.AckRenew)
						m.lastRenewed = append(m.lastRenewed, e2eLoc{r.Partition, r.Offset})
						if mark == 0 {
							m.lastUnacked = append(m.lastUnacked, id) // a renew alone does not persist: accepted at the next poll
						} else {
							// MarkAcks follows at once. It fills in records whose status is still pending, and
							// a renew's status returns to pending when the broker confirms it: whether the
							// mark applies to this record (now) or the next poll accepts it (later) depends on
							// whether that round trip has finished. Both are correct; nothing is expected of
							// this record.
							sawRenewThenMark = true
						}
					default:
						rest = append(rest, id)
					}
				})
				switch mark {
				case 1:
					m.cl.MarkAcks(kgo.AckAccept)
					for _, id := range rest {
						finalByID[id] = 1
						m.pendingTerminal[id] = true
					}
				case 2:
					m.cl.MarkAcks(kgo.AckRelease)
				default:
					m.lastUnacked = append(m.lastUnacked, rest...)
				}
				e.Log.Add("poll", int64(fs.NumRecords()), "", nil, 0, 0)
			}
			flush := func(mi int) {
				m := members[mi]
				fc, cancel := context.WithTimeout(ctx, 2*time.Minute)
				err := m.cl.FlushAcks(fc)
				cancel()
				e.Log.Add("flush", int64(mi), "", err, 0, 0)
				mu.Lock()
				defer mu.Unlock()
				clean := err == nil && m.errs == m.errMark
				if err == nil && p.Members == 1 && m.cbDone < wireUserReqs-m.wireBase {
					fail("FlushAcks returned nil after the broker had seen %d (request, partition) pairs carrying user acknowledgements of this client, but only %d acknowledgement callback results had been delivered and returned", wireUserReqs-m.wireBase, m.cbDone)
				}
				if clean {
					for id := range m.pendingTerminal {
						l := where[id]
						ok := false
						for _, ty := range wireCovered[l] {
							if ty == finalByID[id] {
								ok = true
							}
						}
						if !ok && !moved {
							fail("FlushAcks returned nil and no callback reported an error, but the %s of record %d (partition %d offset %d) was never sent: acknowledgement types seen for that offset: %v", map[int8]string{1: "accept", 3: "reject"}[finalByID[id]], id, l.part, l.off, wireCovered[l])
						}
						terminalFlushed[id] = true
					}
				}
				m.pendingTerminal = map[int64]bool{}
				m.errMark = m.errs
			}
			for _, s := range p.Steps {
				time.Sleep(s.Delay)
				switch s.Kind {
				case "produce":
					prod.ProduceSync(ctx, mk(s.N)...)
				case "txproduce":
					if err := tx.BeginTransaction(); err == nil {
						tx.ProduceSync(ctx, mk(s.N)...)
						try := kgo.TryAbort
						if s.Commit {
							try = kgo.TryCommit
						}
						tx.EndTransaction(ctx, try)
					}
				case "poll":
					poll(members[s.Slot], s.Max, s.Acks, s.Mark)
				case "flush":
					flush(s.Slot)
				case "restart":
					// Close sends what is pending and releases whatever is unacknowledged; the outcome is not observed here
					m := members[s.Slot]
					m.cl.Close()
					mu.Lock()
					m.pendingTerminal = map[int64]bool{}
					m.lastUnacked, m.lastRenewed = nil, nil
					m.errMark = m.errs
					m.cbDone = 0
					m.wireBase = wireUserReqs
					mu.Unlock()
					m.cl = newClient(m, fmt.Sprintf("share-%d", s.Slot))
				case "move":
					if e.Cluster.MoveTopicPartition("sh", 0, int32(s.Node)) == nil {
						moved = true
					}
				case "sleep":
					time.Sleep(s.Dur)
				}
			}
			for i := range members {
				flush(i)
			}
			// Release on close: what the members' last polls left unacknowledged must be available to a
			// fresh member straight away (an acquisition that was not released would stay locked for an hour).
			mustReturn := map[int64]bool{}
			for _, m := range members {
				for _, id := range m.lastUnacked {
					// kfake archives a record instead of releasing it once it has been acquired 5 times
					// (group.share.delivery.count.limit). Acquisitions include fetches the client buffered
					// and released without ever surfacing them, so count the releases the broker saw.
					releases := 0
					mu.Lock()
					for _, ty := range wireCovered[where[id]] {
						if ty == 2 {
							releases++
						}
					}
					mu.Unlock()
					if delivered[where[id]] < 5 && releases < 3 {
						mustReturn[id] = true
					} else {
						nearLimit++
					}
				}
				m.cl.Close()
			}
			fresh := &e2eMember{pendingTerminal: map[int64]bool{}}
			fresh.cl = newClient(fresh, "share-fresh")
			got := map[int64]bool{}
			for quiet, n := 0, 0; quiet < 3 && n < 60; n++ {
				pc, cancel := context.WithTimeout(ctx, 2*time.Second)
				fs := fresh.cl.PollFetches(pc)
				cancel()
				k := 0
				fs.EachRecord(func(r *kgo.Record) { got[see(r)] = true; k++ })
				if k == 0 {
					quiet++
				} else {
					quiet = 0
				}
			}
			fresh.cl.Close()
			mu.Lock()
			defer mu.Unlock()
			if orderViolation != "" {
				fail("%s", orderViolation)
			}
			if deliveredAfterFinal != "" && !moved {
				fail("%s", deliveredAfterFinal)
			}
			if !moved {
				for id := range mustReturn {
					sawCloseRelease = true
					if !got[id] {
						l := where[id]
						fail("record %d (partition %d offset %d) was left unacknowledged by a member that then closed, but it was not released: a fresh member of the group did not receive it (acknowledgement types seen for the offset: %v)", id, l.part, l.off, wireCovered[l])
					}
				}
				for l, n := range wireTerminal {
					if d := delivered[l]; d > 0 && n > d {
						if renewThenTerminal[l] && knownSplitRenew() {
							ev.Excluded(knownSplitRenewKey) // open finding, see known_e2e_test.go
							continue
						}
						fail("partition %d offset %d was delivered to the application %d time(s) but the broker saw %d accept/reject acknowledgements for it: %v", l.part, l.off, d, n, wireCovered[l])
					}
				}
			}
			sort.Slice(wire, func(i, j int) bool { return wire[i].n < wire[j].n })
			for i := range wire {
				if wire[i].typ == 0 {
					sawGapBelow = true
				}
			}
		})
		var ks []string
		for _, s := range p.Steps {
			ks = append(ks, s.Kind)
		}
		ev.Case(fmt.Sprintf("e2e|%d|%d|%d|%v", p.Brokers, p.Parts, p.Members, p.Steps), sawGapBelow || sawRenewThenTerminal || sawAutoAccept || sawCloseRelease)
		ev.Class("e2e")
		if sawGapBelow {
			ev.Class("e2e-gap-range-on-the-wire")
		}
		if sawTerminalDuringRenew {
			ev.Class("e2e:terminal-ack-while-the-renew-is-unanswered")
		}
		if sawRenewThenMark {
			ev.Class("e2e:renew-then-MarkAcks-at-once (outcome of that record not judged)")
		}
		if sawRenewThenTerminal {
			ev.Class("e2e-renew-then-terminal")
		}
		if sawAutoAccept {
			ev.Class("e2e-auto-accept-at-next-poll")
		}
		if sawCloseRelease {
			ev.Class("e2e-unacked-at-close")
		}
		if nearLimit > 0 {
			ev.Class("e2e-unacked-at-close-near-delivery-limit-not-required")
		}
		if moved {
			ev.Class("e2e-leader-move")
		}
		if p.Members > 1 {
			ev.Class("e2e-two-members")
		}
		ev.SampleIf(func() any { return map[string]any{"e2e_steps": ks, "members": p.Members, "partitions": p.Parts} })
	})
}
