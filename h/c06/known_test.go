package c06

import (
	"testing"

	"verif/h/ev"
	lm "verif/h/logmodel"
)

// Two defects found by this check were repaired in /repo (KNOWN_FINDINGS.json,
// "fixed": 9e25c74 and 2115fdf; reverse patches in /verif/seeded/orig-C06-*). Nothing
// is excluded for them; their minimal witnesses stay here as fixed regression cases
// next to the generators that found them.

// witnessLogAppend: KIP-32 - "If the timestamp type of the wrapper message is
// LogAppendTime, the timestamp of the wrapper message is used for all inner
// messages". One v1 gzip wrapper at offsets 100..101, wrapper timestamp 1600000000000
// with the log-append-time bit, inner create times 1599999999000 / 1599999999500.
func witnessLogAppend() (*lm.Log, call) {
	l := &lm.Log{Batches: []lm.Batch{{
		Format: lm.V1, Codec: lm.Gzip, Inner: lm.InnerRelative, Marker: lm.NoMarker,
		LogAppendTime: true, AppendTime: 1600000000000,
		Records: []lm.Record{
			{Offset: 100, Timestamp: 1599999999000, Key: []byte("k0"), Value: []byte("v0")},
			{Offset: 101, Timestamp: 1599999999500, Key: []byte("k1"), Value: []byte("v1")},
		},
	}}}
	in, _ := l.Encode()
	return l, call{in: in, q: lm.Query{Offset: 100}}
}

// witnessVarint: a v2 batch with valid length and CRC, record count 1 and the record
// section 80 80 80 80 80 (an overlong varint where a record length is expected;
// kbin.Varint reports it as (0, -5)).
func witnessVarint() call {
	one := int32(1)
	l := &lm.Log{Batches: []lm.Batch{{
		Format: lm.V2, Marker: lm.NoMarker, ProducerID: -1, ProducerEpoch: -1, BaseSequence: -1,
		RawRecords: []byte{0x80, 0x80, 0x80, 0x80, 0x80}, CountOverride: &one,
	}}}
	in, _ := l.Encode()
	return call{in: in}
}

func TestWitnesses(t *testing.T) {
	l, c := witnessLogAppend()
	want, next := l.Expect(c.q, 1)
	o := run(c)
	ev.Case("witness|"+digest(c.in, c), false)
	if o.panicked != nil || o.fp.Err != nil {
		report(t, "v1 compressed wrapper with log append time", l, c, &o, want, next)
	}
	if d := equalDiff(&o, want, next); d != "" {
		report(t, "v1 compressed wrapper with log append time (KIP-32: inner records take the wrapper's timestamp and timestamp type): "+d, l, c, &o, want, next)
	}

	c = witnessVarint()
	ev.Case("witness|"+digest(c.in, c), true)
	hostileCheck(t, c, true)
	// the batch claims one record at offset 0 that cannot be decoded: it must not be skipped
	if o := run(c); o.panicked == nil && (len(o.fp.Records) != 0 || o.next != 0) {
		report(t, "undecodable record section: nothing can be returned and the next offset must stay at 0", nil, c, &o, nil, 0)
	}
}
