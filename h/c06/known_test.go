package c06

import (
	"encoding/json"
	"fmt"
	"os"
	"sync"
	"testing"

	"verif/h/ev"
	lm "verif/h/logmodel"
)

// Finding (reported to the lead; takes effect only if KNOWN_FINDINGS.json lists it as
// open, otherwise the check is strict and reports it as a violation):
//
// KIP-32: "If the timestamp type of the wrapper message is LogAppendTime, the
// timestamp of the wrapper message is used for all inner messages" (a broker with
// message.timestamp.type=LogAppendTime overwrites only the wrapper's timestamp and
// attribute bit, precisely so that it need not recompress). processV1OuterMessage
// gives inner records their own stored (create time) timestamp and timestamp type 0.
const knownKey = "v1-compressed-wrapper-with-log-append-time-inner-records-keep-their-create-time"

// knownWitness: one v1 gzip wrapper at offsets 100..101, wrapper timestamp
// 1600000000000 with the log-append-time bit, inner create times 1599999999000/500.
func knownWitness() *lm.Log {
	return &lm.Log{Batches: []lm.Batch{{
		Format: lm.V1, Codec: lm.Gzip, Inner: lm.InnerRelative, Marker: lm.NoMarker,
		LogAppendTime: true, AppendTime: 1600000000000,
		Records: []lm.Record{
			{Offset: 100, Timestamp: 1599999999000, Key: []byte("k0"), Value: []byte("v0")},
			{Offset: 101, Timestamp: 1599999999500, Key: []byte("k1"), Value: []byte("v1")},
		},
	}}}
}

var (
	knownOnce             sync.Once
	knownListed, knownHit bool
	knownDetail           string
)

func knownProbe() {
	knownOnce.Do(func() {
		if raw, err := os.ReadFile(os.Getenv("VERIF_KNOWN")); err == nil {
			var k struct {
				Findings []struct {
					Property string `json:"property"`
					Key      string `json:"key"`
					Status   string `json:"status"`
				} `json:"findings"`
			}
			if json.Unmarshal(raw, &k) == nil {
				for _, f := range k.Findings {
					if f.Property == "C06" && f.Key == knownKey && f.Status == "open" {
						knownListed = true
					}
				}
			}
		}
		l := knownWitness()
		in, _ := l.Encode()
		c := call{in: in, q: lm.Query{Offset: 100}}
		want, next := l.Expect(c.q, 1)
		o := run(c)
		if o.panicked == nil {
			if d := equalDiff(&o, want, next); d != "" {
				knownHit = true
				knownDetail = fmt.Sprintf("%s; witness %s; got %s", d, c, describeGot(o.fp.Records))
			}
		}
	})
}

// knownExcluded: the class is excluded from generation only when the finding is
// listed as open AND still reproduces on the witness.
func knownExcluded() bool {
	knownProbe()
	return knownListed && knownHit
}

func TestKnownFindingWitness(t *testing.T) {
	knownProbe()
	ev.Case("known-witness", false)
	switch {
	case knownHit && knownListed:
		ev.KnownFinding("C06", "key="+knownKey+" confirmed on the witness: "+knownDetail)
	case knownHit:
		l := knownWitness()
		in, _ := l.Encode()
		c := call{in: in, q: lm.Query{Offset: 100}}
		want, next := l.Expect(c.q, 1)
		o := run(c)
		report(t, "v1 compressed wrapper with log append time (KIP-32: inner records take the wrapper's timestamp and timestamp type): "+knownDetail, l, c, &o, want, next)
	}
}
