package c06

import (
	"encoding/json"
	"fmt"
	"os"
	"strings"
	"sync"
	"testing"

	"verif/h/ev"
	lm "verif/h/logmodel"
)

// Two findings were reported to the lead. Each takes effect only if
// KNOWN_FINDINGS.json lists it (property C06, the key below, status "open") AND it
// still reproduces on its witness; otherwise the check is strict and reports it.
//
// keyLogAppend - KIP-32: "If the timestamp type of the wrapper message is
// LogAppendTime, the timestamp of the wrapper message is used for all inner
// messages" (a broker with message.timestamp.type=LogAppendTime overwrites only the
// wrapper's timestamp and attribute bit so that it need not recompress).
// processV1OuterMessage gives inner records their own stored create time and
// timestamp type 0. Input class: v1 compressed wrapper with the log-append-time bit;
// excluded by construction in the generator.
//
// keyVarint - readRawRecordsInto computes total = used + length with used = -5 for
// an overlong/overflowing record-length varint (kbin.Varint's error return) and
// slices in[:total] with a negative bound. Input class: a v2 batch that passes the
// length and CRC checks and whose record section has an overlong 5-byte varint where
// a record length is expected; recognised by the panic site (arbitrary bytes cannot
// be filtered by construction without decoding them).
const (
	keyLogAppend = "v1-compressed-wrapper-with-log-append-time-inner-records-keep-their-create-time"
	keyVarint    = "v2-record-length-varint-overlong-panics-readRawRecordsInto"
)

// witnessLogAppend: one v1 gzip wrapper at offsets 100..101, wrapper timestamp
// 1600000000000 with the log-append-time bit, inner create times 1599999999000/500.
func witnessLogAppend() (*lm.Log, call) {
	l := &lm.Log{Batches: []lm.Batch{{
		Format: lm.V1, Codec: lm.Gzip, Inner: lm.InnerRelative, Marker: lm.NoMarker,
		LogAppendTime: true, AppendTime: 1600000000000,
		Records: []lm.Record{
			{Offset: 100, Timestamp: 1599999999000, Key: []byte("k0"), Value: []byte("v0")},
			{Offset: 101, Timestamp: 1599999999500, Key: []byte("k1"), Value: []byte("v1")},
		},
	}}}
	in, _ := l.Encode()
	return l, call{in: in, q: lm.Query{Offset: 100}}
}

// witnessVarint: a v2 batch with valid length and CRC, record count 1 and the record
// section 80 80 80 80 80.
func witnessVarint() (*lm.Log, call) {
	one := int32(1)
	l := &lm.Log{Batches: []lm.Batch{{
		Format: lm.V2, Marker: lm.NoMarker, ProducerID: -1, ProducerEpoch: -1, BaseSequence: -1,
		RawRecords: []byte{0x80, 0x80, 0x80, 0x80, 0x80}, CountOverride: &one,
	}}}
	in, _ := l.Encode()
	return l, call{in: in}
}

func isVarintPanic(o *outcome) bool {
	// kbin.Varint reports an overlong varint as (0, -5), so the bound is exactly -5
	return o.panicked != nil && strings.HasSuffix(fmt.Sprint(o.panicked), "slice bounds out of range [:-5]") &&
		strings.Contains(o.stack, "kgo.readRawRecordsInto")
}

type knownState struct {
	listed, hit bool
	detail      string
}

var (
	knownOnce sync.Once
	known     = map[string]*knownState{keyLogAppend: {}, keyVarint: {}}
)

func knownProbe() {
	knownOnce.Do(func() {
		if raw, err := os.ReadFile(os.Getenv("VERIF_KNOWN")); err == nil {
			var k struct {
				Findings []struct {
					Property string `json:"property"`
					Key      string `json:"key"`
					Status   string `json:"status"`
				} `json:"findings"`
			}
			if json.Unmarshal(raw, &k) == nil {
				for _, f := range k.Findings {
					if st := known[f.Key]; st != nil && f.Property == "C06" && f.Status == "open" {
						st.listed = true
					}
				}
			}
		}
		l, c := witnessLogAppend()
		want, next := l.Expect(c.q, 1)
		if o := run(c); o.panicked == nil {
			if d := equalDiff(&o, want, next); d != "" {
				known[keyLogAppend].hit = true
				known[keyLogAppend].detail = fmt.Sprintf("%s; witness %s; got %s", d, c, describeGot(o.fp.Records))
			}
		}
		_, c = witnessVarint()
		if o := run(c); isVarintPanic(&o) {
			known[keyVarint].hit = true
			known[keyVarint].detail = fmt.Sprintf("panic: %v; witness %s", o.panicked, c)
		}
	})
}

// knownActive: the class is excluded only when the finding is listed as open AND
// still reproduces on the witness.
func knownActive(key string) bool {
	knownProbe()
	return known[key].listed && known[key].hit
}

func TestKnownFindingWitness(t *testing.T) {
	knownProbe()
	ev.Case("known-witness", false)
	for _, key := range []string{keyLogAppend, keyVarint} {
		st := known[key]
		switch {
		case st.hit && st.listed:
			ev.KnownFinding("C06", "key="+key+" confirmed on the witness: "+st.detail)
		case st.hit && key == keyLogAppend:
			l, c := witnessLogAppend()
			want, next := l.Expect(c.q, 1)
			o := run(c)
			report(t, "v1 compressed wrapper with log append time (KIP-32: inner records take the wrapper's timestamp and timestamp type): "+st.detail, l, c, &o, want, next)
		case st.hit:
			_, c := witnessVarint()
			o := run(c)
			report(t, "v2 batch with valid length and CRC whose record section starts with an overlong varint", nil, c, &o, nil, 0)
		}
	}
}
