package c06

import (
	"fmt"
	"go/ast"
	"go/parser"
	"go/token"
	"os"
	"strconv"
	"strings"
	"testing"
)

// TestReplayFuzzCrasher re-runs a saved native-fuzz crasher of FuzzProcess
// (./check C06 --replay <file>): the corpus file ("go test fuzz v1" + one Go literal
// per argument) is parsed and pushed through the same oracle.
func TestReplayFuzzCrasher(t *testing.T) {
	p := os.Getenv("VERIF_REPLAY")
	if p == "" || strings.HasSuffix(p, ".fail") {
		return
	}
	raw, err := os.ReadFile(p)
	if err != nil {
		t.Fatalf("VERIF-INFRA: cannot read replay file: %v", err)
	}
	lines := strings.Split(strings.TrimSpace(string(raw)), "\n")
	if len(lines) != 5 || !strings.HasPrefix(lines[0], "go test fuzz v1") {
		t.Fatalf("VERIF-INFRA: %s is not a FuzzProcess corpus file", p)
	}
	lit := func(s string) (kind string, val string) {
		e, err := parser.ParseExpr(s)
		if err != nil {
			t.Fatalf("VERIF-INFRA: cannot parse %q: %v", s, err)
		}
		c, ok := e.(*ast.CallExpr)
		if !ok || len(c.Args) != 1 {
			t.Fatalf("VERIF-INFRA: unexpected corpus line %q", s)
		}
		neg := ""
		arg := c.Args[0]
		if u, ok := arg.(*ast.UnaryExpr); ok && u.Op == token.SUB {
			neg, arg = "-", u.X
		}
		b, ok := arg.(*ast.BasicLit)
		if !ok {
			t.Fatalf("VERIF-INFRA: unexpected corpus line %q", s)
		}
		switch f := c.Fun.(type) {
		case *ast.Ident:
			return f.Name, neg + b.Value
		case *ast.ArrayType:
			return "[]byte", b.Value
		}
		t.Fatalf("VERIF-INFRA: unexpected corpus line %q", s)
		return "", ""
	}
	bytesOf := func(s string) []byte {
		k, v := lit(s)
		u, err := strconv.Unquote(v)
		if k != "[]byte" || err != nil {
			t.Fatalf("VERIF-INFRA: want []byte literal, got %q", s)
		}
		return []byte(u)
	}
	in := bytesOf(lines[1])
	_, ov := lit(lines[2])
	offset, err := strconv.ParseInt(ov, 0, 64)
	if err != nil {
		t.Fatalf("VERIF-INFRA: offset %q: %v", ov, err)
	}
	_, fv := lit(lines[3])
	var flags byte
	if strings.HasPrefix(fv, "'") {
		r, _, _, err := strconv.UnquoteChar(fv[1:len(fv)-1], '\'')
		if err != nil {
			t.Fatalf("VERIF-INFRA: flags %q: %v", fv, err)
		}
		flags = byte(r)
	} else {
		n, err := strconv.ParseUint(fv, 0, 8)
		if err != nil {
			t.Fatalf("VERIF-INFRA: flags %q: %v", fv, err)
		}
		flags = byte(n)
	}
	ab := bytesOf(lines[4])
	fmt.Printf("replaying fuzz input: %d bytes, offset %d, flags %#x, aborted %x\n", len(in), offset, flags, ab)
	fuzzOne(t, in, offset, flags, ab)
}
