// Package c06 checks property C06: kgo.ProcessFetchPartition returns exactly what the
// Kafka log format says a partition response contains. Inputs and expectations both
// come from the logical model in verif/h/logmodel; nothing is expected by decoding.
package c06

import (
	"bytes"
	"crypto/sha256"
	"encoding/hex"
	"fmt"
	"math"
	"runtime/debug"
	"sort"
	"strings"
	"testing"

	"github.com/twmb/franz-go/pkg/kerr"
	"github.com/twmb/franz-go/pkg/kgo"
	"github.com/twmb/franz-go/pkg/kmsg"
	"pgregory.net/rapid"

	"verif/h/ev"
	lm "verif/h/logmodel"
)

const (
	topic     = "c06-topic"
	partition = int32(7)
)

var decompressor kgo.Decompressor

func TestMain(m *testing.M) {
	// Generated valid payloads are tiny; the bound only matters for hostile inputs
	// (a few bytes of gzip may claim gigabytes). Must precede the decompressor.
	kgo.VerifSetMaxDecompressedSize(16 << 20)
	decompressor = kgo.DefaultDecompressor()
	ev.Main(m, "C06")
}

// ---------------------------------------------------------------------------
// running the function under test

type call struct {
	in         []byte
	q          lm.Query
	aborted    []lm.Aborted
	disableCRC bool
	errorCode  int16
	hook       bool
}

type outcome struct {
	fp       kgo.FetchPartition
	next     int64
	panicked any
	stack    string
	hooks    int
}

func run(c call) (o outcome) {
	rp := kmsg.NewFetchResponseTopicPartition()
	rp.Partition = partition
	rp.ErrorCode = c.errorCode
	rp.HighWatermark = 1 << 50
	rp.LastStableOffset = 1<<50 - 1
	rp.LogStartOffset = 3
	for _, a := range c.aborted {
		e := kmsg.NewFetchResponseTopicPartitionAbortedTransaction()
		e.ProducerID, e.FirstOffset = a.ProducerID, a.FirstOffset
		rp.AbortedTransactions = append(rp.AbortedTransactions, e)
	}
	rp.RecordBatches = c.in
	opts := kgo.ProcessFetchPartitionOpts{
		KeepControlRecords:   c.q.KeepControl,
		DisableCRCValidation: c.disableCRC,
		Offset:               c.q.Offset,
		Topic:                topic,
		Partition:            partition,
	}
	if c.q.ReadCommitted {
		opts.IsolationLevel = kgo.ReadCommitted()
	} else {
		opts.IsolationLevel = kgo.ReadUncommitted()
	}
	var hook func(kgo.FetchBatchMetrics)
	if c.hook {
		hook = func(kgo.FetchBatchMetrics) { o.hooks++ }
	}
	defer func() {
		if r := recover(); r != nil {
			o.panicked = r
			o.stack = string(debug.Stack())
		}
	}()
	o.fp, o.next = kgo.ProcessFetchPartition(opts, &rp, decompressor, hook)
	return o
}

func (c call) String() string {
	return fmt.Sprintf("offset=%d read_committed=%v keep_control=%v disable_crc=%v error_code=%d aborted=%v bytes(%d)=%s",
		c.q.Offset, c.q.ReadCommitted, c.q.KeepControl, c.disableCRC, c.errorCode, c.aborted, len(c.in), hex.EncodeToString(c.in))
}

// ---------------------------------------------------------------------------
// comparing with the model

func sameBytes(got, want []byte) bool {
	return (got == nil) == (want == nil) && bytes.Equal(got, want)
}

func describeGot(rs []*kgo.Record) string {
	var sb strings.Builder
	for _, r := range rs {
		fmt.Fprintf(&sb, "{off=%d ts=%d key=%x(nil=%v) val=%x(nil=%v) hdrs=%d tt=%d codec=%d txn=%v ctl=%v pid=%d/%d le=%d} ",
			r.Offset, r.Timestamp.UnixMilli(), r.Key, r.Key == nil, r.Value, r.Value == nil, len(r.Headers),
			r.Attrs.TimestampType(), r.Attrs.CompressionType(), r.Attrs.IsTransactional(), r.Attrs.IsControl(), r.ProducerID, r.ProducerEpoch, r.LeaderEpoch)
	}
	return sb.String()
}

func describeWant(ws []lm.Want) string {
	var sb strings.Builder
	for _, w := range ws {
		fmt.Fprintf(&sb, "{off=%d ts=%d(has=%v) key=%x(nil=%v) val=%x(nil=%v) hdrs=%d tt=%d codec=%d txn=%v ctl=%v pid=%d/%d le=%d batch=%d} ",
			w.Offset, w.Timestamp, w.HasTimestamp, w.Key, w.Key == nil, w.Value, w.Value == nil, len(w.Headers),
			w.TimestampType, w.Codec, w.Transactional, w.Control, w.ProducerID, w.ProducerEpoch, w.LeaderEpoch, w.Batch)
	}
	return sb.String()
}

// recordDiff compares one returned record with the model's expectation.
func recordDiff(g *kgo.Record, w *lm.Want) string {
	switch {
	case g == nil:
		return "nil record"
	case g.Offset != w.Offset:
		return fmt.Sprintf("offset %d want %d", g.Offset, w.Offset)
	case g.Topic != topic || g.Partition != partition:
		return fmt.Sprintf("topic/partition %s/%d want %s/%d", g.Topic, g.Partition, topic, partition)
	case w.HasTimestamp && g.Timestamp.UnixMilli() != w.Timestamp:
		return fmt.Sprintf("offset %d: timestamp %d ms want %d ms", w.Offset, g.Timestamp.UnixMilli(), w.Timestamp)
	case !w.HasTimestamp && !(g.Timestamp.IsZero() || g.Timestamp.UnixMilli() == -1):
		return fmt.Sprintf("offset %d: v0 message has no timestamp, got %v", w.Offset, g.Timestamp)
	case !sameBytes(g.Key, w.Key):
		return fmt.Sprintf("offset %d: key %x (nil=%v) want %x (nil=%v)", w.Offset, g.Key, g.Key == nil, w.Key, w.Key == nil)
	case !sameBytes(g.Value, w.Value):
		return fmt.Sprintf("offset %d: value %x (nil=%v) want %x (nil=%v)", w.Offset, g.Value, g.Value == nil, w.Value, w.Value == nil)
	case len(g.Headers) != len(w.Headers):
		return fmt.Sprintf("offset %d: %d headers want %d", w.Offset, len(g.Headers), len(w.Headers))
	case g.Attrs.TimestampType() != w.TimestampType:
		return fmt.Sprintf("offset %d: timestamp type %d want %d", w.Offset, g.Attrs.TimestampType(), w.TimestampType)
	case g.Attrs.CompressionType() != w.Codec:
		return fmt.Sprintf("offset %d: compression type %d want %d", w.Offset, g.Attrs.CompressionType(), w.Codec)
	case g.Attrs.IsTransactional() != w.Transactional:
		return fmt.Sprintf("offset %d: transactional %v want %v", w.Offset, g.Attrs.IsTransactional(), w.Transactional)
	case g.Attrs.IsControl() != w.Control:
		return fmt.Sprintf("offset %d: control %v want %v", w.Offset, g.Attrs.IsControl(), w.Control)
	case w.V2 && (g.ProducerID != w.ProducerID || g.ProducerEpoch != w.ProducerEpoch):
		return fmt.Sprintf("offset %d: producer %d/%d want %d/%d", w.Offset, g.ProducerID, g.ProducerEpoch, w.ProducerID, w.ProducerEpoch)
	case w.V2 && g.LeaderEpoch != w.LeaderEpoch:
		return fmt.Sprintf("offset %d: leader epoch %d want %d", w.Offset, g.LeaderEpoch, w.LeaderEpoch)
	case !w.V2 && g.LeaderEpoch != -1:
		return fmt.Sprintf("offset %d: leader epoch %d want -1 for a message set", w.Offset, g.LeaderEpoch)
	}
	for i := range w.Headers {
		if g.Headers[i].Key != w.Headers[i].Key || !sameBytes(g.Headers[i].Value, w.Headers[i].Value) {
			return fmt.Sprintf("offset %d: header %d = %q:%x (nil=%v) want %q:%x (nil=%v)", w.Offset, i, g.Headers[i].Key, g.Headers[i].Value,
				g.Headers[i].Value == nil, w.Headers[i].Key, w.Headers[i].Value, w.Headers[i].Value == nil)
		}
	}
	return ""
}

// equalDiff: got must be exactly want (records and next offset).
func equalDiff(o *outcome, want []lm.Want, wantNext int64) string {
	if len(o.fp.Records) != len(want) {
		return fmt.Sprintf("%d records want %d", len(o.fp.Records), len(want))
	}
	for i := range want {
		if d := recordDiff(o.fp.Records[i], &want[i]); d != "" {
			return fmt.Sprintf("record %d: %s", i, d)
		}
	}
	if o.next != wantNext {
		return fmt.Sprintf("next offset %d want %d", o.next, wantNext)
	}
	return ""
}

// passthroughDiff: the partition-level fields are copied from the response.
func passthroughDiff(o *outcome) string {
	fp := &o.fp
	if fp.Partition != partition || fp.HighWatermark != 1<<50 || fp.LastStableOffset != 1<<50-1 || fp.LogStartOffset != 3 {
		return fmt.Sprintf("partition fields not copied: %d hwm=%d lso=%d lsto=%d", fp.Partition, fp.HighWatermark, fp.LastStableOffset, fp.LogStartOffset)
	}
	return ""
}

// weakDiff: what must hold on every input, valid or not. opts.Offset is documented
// as "the minimum offset for which we'll parse records. Records with lower offsets
// will not be parsed or returned"; records come back in log order.
func weakDiff(o *outcome, requested int64) string {
	prev := int64(math.MinInt64)
	for i, r := range o.fp.Records {
		if r == nil {
			return fmt.Sprintf("record %d is nil", i)
		}
		if r.Offset == math.MaxInt64 {
			return "" // offset+1 is not representable; nothing is asserted past this point
		}
		if r.Offset < requested {
			return fmt.Sprintf("record %d has offset %d below the requested offset %d", i, r.Offset, requested)
		}
		if i > 0 && r.Offset <= prev {
			return fmt.Sprintf("record %d has offset %d after offset %d: not strictly increasing", i, r.Offset, prev)
		}
		prev = r.Offset
	}
	return ""
}

// ---------------------------------------------------------------------------
// failure reporting (inside rapid: t.Fatalf makes rapid shrink and save a .fail file)

type fataler interface {
	Helper()
	Fatalf(string, ...any)
}

func report(t fataler, what string, l *lm.Log, c call, o *outcome, want []lm.Want, wantNext int64) {
	t.Helper()
	var sb strings.Builder
	fmt.Fprintf(&sb, "C06 %s\n", what)
	if l != nil {
		fmt.Fprintf(&sb, "model:\n%s", l.Describe())
	}
	fmt.Fprintf(&sb, "call: %s\n", c)
	if o != nil {
		if o.panicked != nil {
			fmt.Fprintf(&sb, "PANIC: %v\n%s\n", o.panicked, o.stack)
		}
		fmt.Fprintf(&sb, "got  next=%d err=%v records: %s\n", o.next, o.fp.Err, describeGot(o.fp.Records))
	}
	if want != nil || l != nil {
		fmt.Fprintf(&sb, "want next=%d records: %s\n", wantNext, describeWant(want))
	}
	t.Fatalf("%s", sb.String())
}

func digest(in []byte, c call) string {
	h := sha256.Sum256(in)
	return fmt.Sprintf("%x|%d|%v|%v|%v|%v", h[:12], c.q.Offset, c.q.ReadCommitted, c.q.KeepControl, c.disableCRC, c.aborted)
}

// ---------------------------------------------------------------------------
// the model property

func genCfg() lm.GenConfig {
	cfg := lm.GenConfig{MaxBatches: 7, MaxRecords: 5}
	if ev.Thorough() {
		cfg = lm.GenConfig{MaxBatches: 10, MaxRecords: 8}
	}
	return cfg
}

// exhaustiveTruncLimit: responses up to this size are cut at every byte boundary.
func exhaustiveTruncLimit() int {
	if ev.Thorough() {
		return 700
	}
	return 360
}

func drawCall(t *rapid.T, l *lm.Log) call {
	c := call{}
	c.q = lm.Query{
		Offset:        lm.InterestingOffset(t, l),
		ReadCommitted: rapid.Bool().Draw(t, "readCommitted"),
		KeepControl:   rapid.Bool().Draw(t, "keepControl"),
	}
	c.disableCRC = rapid.IntRange(0, 7).Draw(t, "disableCRC") == 0
	c.hook = rapid.Bool().Draw(t, "hook")
	// the broker lists the aborted transactions that end at or after the fetch offset
	c.aborted = l.AbortedFor(c.q.Offset)
	if n := len(l.Aborted) - len(c.aborted); n > 0 {
		ev.Class("aborted-entries-ending-before-the-fetch-offset-not-listed")
	}
	if !c.q.ReadCommitted && rapid.Bool().Draw(t, "noAbortedListWhenUncommitted") {
		c.aborted = nil // what a broker sends for read_uncommitted
	}
	c.q.Aborted = c.aborted
	return c
}

func classify(l *lm.Log, c call) (nontrivial bool) {
	formats := l.Formats()
	ev.Class("formats:" + formats)
	ev.Class(fmt.Sprintf("producers:%d", l.Producers()))
	mixed := len(formats) > 2 || l.Producers() >= 2
	if mixed {
		ev.Class("mixed-formats-or-producers")
	}
	ooo := c.q.ReadCommitted && len(c.aborted) >= 2 && lm.OutOfOrder(c.aborted)
	if ooo {
		ev.Class("aborted-list-out-of-order(read_committed)")
		if lm.SameProducerOutOfOrder(c.aborted) {
			ev.Class("aborted-list-one-producer-out-of-order(read_committed)")
		}
	}
	if c.q.ReadCommitted {
		ev.Class("read_committed")
	} else if len(c.aborted) > 0 {
		ev.Class("read_uncommitted-with-aborted-list")
	}
	if c.q.KeepControl {
		ev.Class("keep-control")
	}
	if c.disableCRC {
		ev.Class("crc-validation-disabled")
	}
	for i := range l.Batches {
		b := &l.Batches[i]
		switch {
		case b.Format == lm.V2 && b.Control:
			ev.Class(fmt.Sprintf("batch:v2-marker-%d", b.Marker))
		case b.Format == lm.V2 && len(b.Records) == 0:
			ev.Class("batch:v2-empty-compacted")
		case b.Format == lm.V2:
			ev.Class("batch:v2-" + b.Codec.String())
			if b.Transactional {
				ev.Class("batch:v2-transactional")
				if c.q.ReadCommitted && l.BatchAborted(i, c.aborted) {
					ev.Class("batch:v2-aborted-under-read_committed")
				}
			}
			if b.Records[0].Offset != b.BaseOffset || b.Last() != b.Records[len(b.Records)-1].Offset ||
				int64(len(b.Records)) != b.Last()-b.First()+1 {
				ev.Class("batch:v2-compaction-gaps")
			}
			if b.LogAppendTime {
				ev.Class("batch:v2-log-append-time")
			}
		case b.IsWrapper():
			ev.Class(fmt.Sprintf("batch:v%d-wrapper-%s-inner%d", b.Format, b.Codec, b.Inner))
			if b.LogAppendTime {
				ev.Class("batch:v1-wrapper-log-append-time")
			}
		default:
			ev.Class(fmt.Sprintf("batch:v%d-plain", b.Format))
		}
		if c.q.Offset > b.First() && c.q.Offset <= b.Last() {
			ev.Class("requested-offset-inside-a-batch")
		}
	}
	return mixed || ooo
}

func TestModel(t *testing.T) {
	gen := lm.GenLog(genCfg())
	rapid.Check(t, func(t *rapid.T) {
		l := gen.Draw(t, "log")
		c := drawCall(t, l)
		checkLog(t, l, c)
	})
}

// truncation points for a response too long to cut everywhere: around every batch
// boundary, around the fixed header positions of every batch, plus drawn ones.
func truncPoints(t *rapid.T, n int, ends []int) []int {
	if n <= exhaustiveTruncLimit() {
		ps := make([]int, n)
		for i := range ps {
			ps[i] = i
		}
		ev.Class("truncation:every-byte-boundary")
		return ps
	}
	ev.Class("truncation:sampled")
	set := map[int]bool{}
	start := 0
	for _, e := range ends {
		for _, d := range []int{0, 1, 7, 8, 11, 12, 16, 17, 18, 20, 21, 22, 60, 61, 62} {
			set[start+d] = true
		}
		for _, d := range []int{-2, -1, 0, 1} {
			set[e+d] = true
		}
		start = e
	}
	for _, p := range rapid.SliceOfN(rapid.IntRange(0, n-1), 48, 48).Draw(t, "truncAt") {
		set[p] = true
	}
	var ps []int
	for p := range set {
		if p >= 0 && p < n {
			ps = append(ps, p)
		}
	}
	sort.Ints(ps)
	return ps
}

func checkLog(t *rapid.T, l *lm.Log, c call) {
	// model self-consistency: the declarative abort rule must agree with what the
	// generator knows about each transaction (a disagreement is a harness bug)
	for i := range l.Batches {
		if b := &l.Batches[i]; b.Format == lm.V2 && b.Transactional && !b.Control && b.Last() >= c.q.Offset && c.q.ReadCommitted &&
			l.BatchAborted(i, c.aborted) != b.TxnAborted {
			t.Fatalf("VERIF-INFRA: model inconsistency: batch %d declarative aborted=%v, generator says %v\n%s", i, l.BatchAborted(i, c.aborted), b.TxnAborted, l.Describe())
		}
	}
	in, ends := l.Encode()
	c.in = in
	nb := len(l.Batches)

	// expectation for every whole-batch prefix
	wants := make([][]lm.Want, nb+1)
	nexts := make([]int64, nb+1)
	for n := 0; n <= nb; n++ {
		wants[n], nexts[n] = l.Expect(c.q, n)
	}
	wantFull := wants[nb]

	nontrivial := classify(l, c)
	ev.Case(digest(in, c), nontrivial)
	ev.SampleIf(func() any {
		return map[string]any{"model": l.Describe(), "call": c.String(), "expected_next": nexts[nb], "expected_records": len(wantFull)}
	})

	// (a) the whole response
	o := run(c)
	if o.panicked != nil {
		report(t, "panic on a valid response", l, c, &o, wantFull, nexts[nb])
	}
	if d := equalDiff(&o, wantFull, nexts[nb]); d != "" {
		report(t, "valid response: "+d, l, c, &o, wantFull, nexts[nb])
	}
	if o.fp.Err != nil {
		report(t, fmt.Sprintf("valid response: Err=%v", o.fp.Err), l, c, &o, wantFull, nexts[nb])
	}
	if d := passthroughDiff(&o); d != "" {
		report(t, d, l, c, &o, wantFull, nexts[nb])
	}
	if c.hook && o.hooks != nb {
		// not asserted: the hook count is not part of the property
		ev.Class("hook-count-differs-from-batch-count")
	}

	// (b) truncation of the serialized bytes
	pts := truncPoints(t, len(in), ends)
	ev.Evals(int64(len(pts)))
	for _, cutAt := range pts {
		whole := sort.SearchInts(ends, cutAt+1) // number of ends <= cutAt
		tc := c
		tc.in = in[:cutAt:cutAt]
		to := run(tc)
		inside := whole == 0 && cutAt > 0 || whole > 0 && cutAt > ends[whole-1]
		what := fmt.Sprintf("response truncated to %d of %d bytes (%d whole batches, cut inside a batch: %v)", cutAt, len(in), whole, inside)
		if to.panicked != nil {
			report(t, what+": panic", l, tc, &to, wants[whole], nexts[whole])
		}
		if d := weakDiff(&to, c.q.Offset); d != "" {
			report(t, what+": "+d, l, tc, &to, wants[whole], nexts[whole])
		}
		// invariants stated independently of the prefix expectation
		if d := invariantDiff(l, c.q, &to, wantFull, whole, inside); d != "" {
			report(t, what+": "+d, l, tc, &to, wants[whole], nexts[whole])
		}
		// exactly the whole batches, nothing of the cut one
		if d := equalDiff(&to, wants[whole], nexts[whole]); d != "" {
			report(t, what+": "+d, l, tc, &to, wants[whole], nexts[whole])
		}
		if to.fp.Err != nil {
			report(t, what+fmt.Sprintf(": Err=%v (a cut trailing batch is what brokers send, not an error)", to.fp.Err), l, tc, &to, wants[whole], nexts[whole])
		}
		if inside {
			ev.Nontrivial(digest(in, c) + fmt.Sprintf("|cut%d", cutAt))
		}
	}
	ev.ClassN("truncation-points", int64(len(pts)))

	// (c) a flipped bit inside the CRC-covered part of one batch
	if !c.disableCRC {
		k := rapid.IntRange(0, nb-1).Draw(t, "crcBatch")
		bstart := 0
		if k > 0 {
			bstart = ends[k-1]
		}
		lo := bstart + 17 // legacy: attributes onward (the magic byte at 16 selects the format and is left alone)
		if l.Batches[k].Format == lm.V2 {
			lo = bstart + 21
		}
		pos := rapid.IntRange(lo, ends[k]-1).Draw(t, "crcFlipAt")
		bit := rapid.IntRange(0, 7).Draw(t, "crcFlipBit")
		fc := c
		fc.in = bytes.Clone(in)
		fc.in[pos] ^= 1 << bit
		fo := run(fc)
		what := fmt.Sprintf("bit %d of byte %d flipped inside the CRC-covered part of batch %d", bit, pos, k)
		if fo.panicked != nil {
			report(t, what+": panic", l, fc, &fo, wants[k], nexts[k])
		}
		if d := equalDiff(&fo, wants[k], nexts[k]); d != "" {
			report(t, what+": "+d, l, fc, &fo, wants[k], nexts[k])
		}
		if fo.fp.Err == nil {
			report(t, what+": no error reported although CRC validation is on", l, fc, &fo, wants[k], nexts[k])
		}
		ev.Evals(1)
		ev.Class("crc-bit-flip")
	}

	// (d) a trailing v2 batch with an intact header whose record section is short
	if last := &l.Batches[nb-1]; last.Format == lm.V2 && len(last.Records) > 0 && rapid.Bool().Draw(t, "damageLast") {
		dl := &lm.Log{Batches: append([]lm.Batch(nil), l.Batches...), Aborted: l.Aborted}
		db := &dl.Batches[nb-1]
		if db.Codec != lm.None && rapid.Bool().Draw(t, "cutPayload") {
			db.CutPayload = rapid.IntRange(1, 24).Draw(t, "cutPayloadBytes")
			ev.Class("damaged-trailing-batch:compressed-payload-cut")
		} else {
			db.CutRecords = rapid.IntRange(1, 40).Draw(t, "cutRecordBytes")
			ev.Class("damaged-trailing-batch:records-cut")
		}
		dc := c
		dc.in, _ = dl.Encode()
		do := run(dc)
		what := "trailing v2 batch with valid length and CRC but a short record section"
		if do.panicked != nil {
			report(t, what+": panic", dl, dc, &do, wantFull, nexts[nb])
		}
		if d := weakDiff(&do, c.q.Offset); d != "" {
			report(t, what+": "+d, dl, dc, &do, wantFull, nexts[nb])
		}
		if d := prefixDiff(&do, wantFull, len(wants[nb-1]), nexts[nb-1]); d != "" {
			report(t, what+": "+d, dl, dc, &do, wantFull, nexts[nb])
		}
		ev.Evals(1)
		ev.Nontrivial(digest(dc.in, dc) + "|damaged")
	}
}

// invariantDiff states the property's safety clauses directly against the full
// model, for a response cut at a byte position with `whole` complete batches.
func invariantDiff(l *lm.Log, q lm.Query, o *outcome, wantFull []lm.Want, whole int, inside bool) string {
	// the next offset never passes an offset that holds a wanted, unreturned data record
	returned := map[int64]bool{}
	for _, r := range o.fp.Records {
		returned[r.Offset] = true
	}
	for i := range wantFull {
		if !returned[wantFull[i].Offset] {
			if o.next > wantFull[i].Offset {
				return fmt.Sprintf("next offset %d passes offset %d, which holds a wanted record that was not returned", o.next, wantFull[i].Offset)
			}
			break
		}
	}
	// a truncated trailing batch never advances the next offset past its first wanted offset
	if inside && whole < len(l.Batches) {
		if fw, ok := l.FirstWanted(q, whole); ok && o.next > fw {
			return fmt.Sprintf("truncated batch %d advanced the next offset to %d, past its first wanted offset %d", whole, o.next, fw)
		}
	}
	// a whole number of batches: next offset = last batch's last offset + 1 (never below the request)
	if !inside {
		want := q.Offset
		for i := 0; i < whole; i++ {
			if e := l.Batches[i].Last() + 1; e > want {
				want = e
			}
		}
		if o.next != want {
			return fmt.Sprintf("after %d whole batches the next offset is %d, want %d (last covered offset + 1)", whole, o.next, want)
		}
	}
	return ""
}

// prefixDiff: the returned records are a prefix of want holding at least the first
// atLeast ones, and the next offset lies in [minNext, first unreturned wanted offset].
func prefixDiff(o *outcome, want []lm.Want, atLeast int, minNext int64) string {
	m := len(o.fp.Records)
	if m > len(want) {
		return fmt.Sprintf("%d records returned, the undamaged response holds only %d wanted ones", m, len(want))
	}
	if m < atLeast {
		return fmt.Sprintf("%d records returned, the whole batches before the damaged one hold %d wanted ones", m, atLeast)
	}
	for i := 0; i < m; i++ {
		if d := recordDiff(o.fp.Records[i], &want[i]); d != "" {
			return fmt.Sprintf("record %d: %s", i, d)
		}
	}
	if m < len(want) && o.next > want[m].Offset {
		return fmt.Sprintf("next offset %d passes offset %d, which holds a wanted record that was not returned", o.next, want[m].Offset)
	}
	if o.next < minNext {
		return fmt.Sprintf("next offset %d is below %d, the position after the whole batches", o.next, minNext)
	}
	return ""
}

// TestErrorCode: a partition error code is surfaced as Err and nothing is consumed.
func TestErrorCode(t *testing.T) {
	rapid.Check(t, func(t *rapid.T) {
		code := rapid.SampledFrom([]int16{1, 3, 6, 9, 74, 100}).Draw(t, "code")
		off := rapid.Int64Range(0, 1<<40).Draw(t, "offset")
		c := call{q: lm.Query{Offset: off, ReadCommitted: rapid.Bool().Draw(t, "rc")}, errorCode: code}
		o := run(c)
		ev.Case(fmt.Sprintf("errcode|%d|%d", code, off), false)
		ev.Class("error-code-response")
		if o.panicked != nil {
			report(t, "panic", nil, c, &o, nil, off)
		}
		if want := kerr.ErrorForCode(code); o.fp.Err != want || len(o.fp.Records) != 0 || o.next != off {
			report(t, fmt.Sprintf("error code %d with no data: want Err=%v, no records, next offset unchanged", code, want), nil, c, &o, nil, off)
		}
	})
}

// ---------------------------------------------------------------------------
// hostile inputs: arbitrary bytes, mutated valid responses

var boundary32 = []uint32{0, 1, 0x7fffffff, 0x80000000, 0xffffffff, 0xfffffff4, 0x7ffffff4, 0x7ffffff3, 0xfffffffe, 17, 49, 61}

// hostileVarints: zigzag varints a record section must never contain where a length is
// expected: overlong (continuation bit on the 5th byte), overflowing 32 bits,
// negative (-1, -2, MinInt32), and huge positive values.
var hostileVarints = [][]byte{
	{0x80, 0x80, 0x80, 0x80, 0x80}, {0xff, 0xff, 0xff, 0xff, 0xff}, {0xff, 0xff, 0xff, 0xff, 0x7f}, {0x80, 0x80, 0x80, 0x80, 0x10},
	{0x01}, {0x03}, {0xff, 0xff, 0xff, 0xff, 0x0f}, {0xfe, 0xff, 0xff, 0xff, 0x0f}, {0xfe, 0xff, 0xff, 0xff, 0x07}, {0x80, 0x80, 0x80, 0x80, 0x08},
}

func mutate(t *rapid.T, in []byte, ends []int) []byte {
	out := bytes.Clone(in)
	n := rapid.IntRange(1, 4).Draw(t, "nMut")
	for i := 0; i < n && len(out) > 0; i++ {
		switch rapid.IntRange(0, 7).Draw(t, "mutKind") {
		case 0: // bit flip anywhere
			p := rapid.IntRange(0, len(out)-1).Draw(t, "flipAt")
			out[p] ^= 1 << rapid.IntRange(0, 7).Draw(t, "flipBit")
		case 1: // overwrite a batch's length field
			k := rapid.IntRange(0, len(ends)-1).Draw(t, "lenBatch")
			s := 0
			if k > 0 {
				s = ends[k-1]
			}
			if s+12 <= len(out) {
				v := rapid.SampledFrom(boundary32).Draw(t, "lenVal")
				out[s+8], out[s+9], out[s+10], out[s+11] = byte(v>>24), byte(v>>16), byte(v>>8), byte(v)
			}
		case 2: // overwrite 4 aligned-to-anything bytes with a boundary value (record counts, deltas, key/value lengths)
			if len(out) >= 4 {
				p := rapid.IntRange(0, len(out)-4).Draw(t, "u32At")
				v := rapid.SampledFrom(boundary32).Draw(t, "u32Val")
				out[p], out[p+1], out[p+2], out[p+3] = byte(v>>24), byte(v>>16), byte(v>>8), byte(v)
			}
		case 3: // magic byte of a batch
			k := rapid.IntRange(0, len(ends)-1).Draw(t, "magicBatch")
			s := 0
			if k > 0 {
				s = ends[k-1]
			}
			if s+16 < len(out) {
				out[s+16] = rapid.SampledFrom([]byte{0, 1, 2, 3, 0xff}).Draw(t, "magic")
			}
		case 4: // truncate
			out = out[:rapid.IntRange(0, len(out)).Draw(t, "truncTo")]
		case 5: // delete a run
			p := rapid.IntRange(0, len(out)-1).Draw(t, "delAt")
			q := min(len(out), p+rapid.IntRange(1, 8).Draw(t, "delLen"))
			out = append(out[:p:p], out[q:]...)
		case 6: // plant a hostile varint (overlong, overflowing, negative, huge)
			v := rapid.SampledFrom(hostileVarints).Draw(t, "varint")
			p := rapid.IntRange(0, len(out)-1).Draw(t, "varintAt")
			out = append(out[:p:p], append(bytes.Clone(v), out[min(len(out), p+len(v)):]...)...)
		default: // set a byte
			p := rapid.IntRange(0, len(out)-1).Draw(t, "setAt")
			out[p] = rapid.SampledFrom([]byte{0, 1, 0x7f, 0x80, 0xff}).Draw(t, "setVal")
		}
	}
	return out
}

func genAborted(t *rapid.T) []lm.Aborted {
	n := rapid.IntRange(0, 4).Draw(t, "nAborted")
	var as []lm.Aborted
	for i := 0; i < n; i++ {
		as = append(as, lm.Aborted{
			ProducerID:  rapid.SampledFrom([]int64{-1, 0, 1, 2, 7, 1000, 1 << 40}).Draw(t, "abPid"),
			FirstOffset: rapid.SampledFrom([]int64{-1, 0, 1, 5, 50, 1 << 40, math.MaxInt64}).Draw(t, "abFirst"),
		})
	}
	return as
}

// nearInt64Limit reports whether offset arithmetic on this input could reach the
// int64 limits (a record at offset MaxInt64 makes "offset + 1" unrepresentable; no
// log can hold one, and nothing but "no panic" is asserted then). Conservative scan:
// any 8-byte window starting 7fffffff.. or 80000000.., i.e. any stored offset within
// 2^32 of a limit, exempts the input.
func nearInt64Limit(in []byte) bool {
	return bytes.Contains(in, []byte{0x7f, 0xff, 0xff, 0xff}) || bytes.Contains(in, []byte{0x80, 0x00, 0x00, 0x00})
}

// hostileCheck runs one arbitrary input and applies what must hold on every input.
// ordering: also assert that offsets are >= the requested one and increase.
func hostileCheck(t fataler, c call, ordering bool) {
	o := run(c)
	if o.panicked != nil {
		report(t, "panic on hostile input", nil, c, &o, nil, 0)
	}
	if ordering {
		if d := weakDiff(&o, c.q.Offset); d != "" {
			report(t, "hostile input: "+d, nil, c, &o, nil, 0)
		}
	}
	// Disabling CRC validation only removes a check: input that validates must
	// give the identical result without validation.
	if !c.disableCRC && o.fp.Err == nil {
		c2 := c
		c2.disableCRC = true
		o2 := run(c2)
		if o2.panicked != nil {
			report(t, "panic on hostile input", nil, c2, &o2, nil, 0)
		}
		same := o2.next == o.next && len(o2.fp.Records) == len(o.fp.Records) && o2.fp.Err == nil
		for i := 0; same && i < len(o.fp.Records); i++ {
			a, b := o.fp.Records[i], o2.fp.Records[i]
			same = a.Offset == b.Offset && bytes.Equal(a.Key, b.Key) && bytes.Equal(a.Value, b.Value) && a.Attrs == b.Attrs
		}
		if !same {
			report(t, fmt.Sprintf("input passes with CRC validation on (next=%d, %d records) but differs with validation off (next=%d err=%v)", o.next, len(o.fp.Records), o2.next, o2.fp.Err), nil, c2, &o2, nil, 0)
		}
	}
}

func TestHostile(t *testing.T) {
	gen := lm.GenLog(genCfg())
	rapid.Check(t, func(t *rapid.T) {
		c := call{
			q: lm.Query{
				ReadCommitted: rapid.Bool().Draw(t, "readCommitted"),
				KeepControl:   rapid.Bool().Draw(t, "keepControl"),
			},
			disableCRC: rapid.Bool().Draw(t, "disableCRC"),
			hook:       rapid.Bool().Draw(t, "hook"),
		}
		nontrivial := false
		nearLimit := false
		switch kind := rapid.IntRange(0, 9).Draw(t, "hostileKind"); {
		case kind == 0:
			c.in = rapid.SliceOfN(rapid.Byte(), 0, 120).Draw(t, "bytes")
			c.q.Offset = rapid.Int64Range(0, 300).Draw(t, "offset")
			c.aborted = genAborted(t)
			ev.Class("hostile:arbitrary-bytes")
		case kind == 1:
			// a plausible header (offset, length matching the input, magic) over arbitrary bytes
			body := rapid.SliceOfN(rapid.Byte(), 6, 120).Draw(t, "body")
			in := make([]byte, 0, 12+len(body))
			for i := 0; i < 8; i++ {
				in = append(in, 0)
			}
			in[7] = rapid.Byte().Draw(t, "off")
			ln := len(body) + rapid.SampledFrom([]int{0, 0, 0, -1, 1}).Draw(t, "lenSkew")
			in = append(in, byte(ln>>24), byte(ln>>16), byte(ln>>8), byte(ln))
			in = append(in, body...)
			in[16] = rapid.SampledFrom([]byte{0, 1, 2, 2, 3}).Draw(t, "magic")
			c.in = in
			c.q.Offset = rapid.Int64Range(0, 300).Draw(t, "offset")
			c.aborted = genAborted(t)
			ev.Class("hostile:header-over-arbitrary-bytes")
		case kind <= 4:
			// valid framing, length and CRC around a hostile record section: the deep
			// parsers are reached with CRC validation on
			l := gen.Draw(t, "log")
			c.q.Offset = lm.InterestingOffset(t, l) // drawn before the model is damaged
			k := rapid.IntRange(0, len(l.Batches)-1).Draw(t, "craftBatch")
			b := &l.Batches[k]
			if raw := b.EncodedRecords(); raw != nil {
				switch rapid.IntRange(0, 3).Draw(t, "craftKind") {
				case 0:
					b.RawRecords = rapid.SliceOfN(rapid.Byte(), 0, 60).Draw(t, "rawRecords")
					if rapid.Bool().Draw(t, "leadingVarint") {
						b.RawRecords = append(bytes.Clone(rapid.SampledFrom(hostileVarints).Draw(t, "varint")), b.RawRecords...)
					}
				case 1, 2:
					b.RawRecords = mutate(t, raw, []int{len(raw)})
				default:
					b.RawRecords = raw
				}
				if b.RawRecords == nil {
					b.RawRecords = []byte{}
				}
				nearLimit = nearInt64Limit(b.RawRecords)
				if b.Format == lm.V2 {
					if rapid.Bool().Draw(t, "craftCount") {
						n := rapid.SampledFrom([]int32{-1, 0, 1, 2, int32(len(b.Records)) + 1, int32(len(b.Records)) - 1, 1000, math.MaxInt32, math.MinInt32}).Draw(t, "count")
						b.CountOverride = &n
					}
					if rapid.IntRange(0, 3).Draw(t, "craftLOD") == 0 {
						b.LastOffsetDelta = rapid.SampledFrom([]int32{-1, 0, math.MaxInt32, math.MinInt32, 5}).Draw(t, "lod")
					}
					if rapid.IntRange(0, 5).Draw(t, "craftBase") == 0 {
						b.BaseOffset = rapid.SampledFrom([]int64{-1, math.MaxInt64, math.MaxInt64 - 1, math.MinInt64, 0}).Draw(t, "base")
					}
				}
			}
			c.in, _ = l.Encode()
			c.aborted = l.Aborted
			nontrivial = true
			ev.Class("hostile:valid-framing-and-crc-around-hostile-record-section")
		default:
			l := gen.Draw(t, "log")
			in, ends := l.Encode()
			c.in = mutate(t, in, ends)
			c.q.Offset = lm.InterestingOffset(t, l)
			c.aborted = l.Aborted
			if rapid.IntRange(0, 3).Draw(t, "hostileAborted") == 0 {
				c.aborted = genAborted(t)
			}
			nontrivial = !bytes.Equal(in, c.in)
			ev.Class("hostile:mutated-valid-response")
		}
		ev.Case("hostile|"+digest(c.in, c), nontrivial)
		// Compressed payloads hide their content from the scan: after a mutation
		// they almost never decompress, and a crafted section is scanned before it
		// is compressed (see below), so the scan of the final bytes is enough for
		// mutated inputs and the crafted flag covers crafted ones.
		ordering := !nearLimit && !nearInt64Limit(c.in)
		if !ordering {
			ev.Class("hostile:ordering-not-asserted(offsets-near-int64-limit)")
		}
		hostileCheck(t, c, ordering)
	})
}

// ---------------------------------------------------------------------------
// native fuzzing (thorough tier): arbitrary bytes, seeded with valid responses

func abortedFromBytes(b []byte) []lm.Aborted {
	var as []lm.Aborted
	for len(b) >= 2 && len(as) < 8 {
		as = append(as, lm.Aborted{ProducerID: int64(b[0] % 8), FirstOffset: int64(b[1])})
		b = b[2:]
	}
	return as
}

func FuzzProcess(f *testing.F) {
	gen := lm.GenLog(lm.GenConfig{MaxBatches: 5, MaxRecords: 4})
	for seed := 1; seed <= 80; seed++ {
		l := gen.Example(seed)
		in, ends := l.Encode()
		var ab []byte
		for _, a := range l.Aborted {
			ab = append(ab, byte(a.ProducerID), byte(a.FirstOffset))
		}
		first := l.Batches[0].First()
		f.Add(in, first, byte(seed), ab)
		if seed%4 == 0 {
			f.Add(in[:ends[len(ends)-1]-3], first+1, byte(seed), ab)
		}
	}
	f.Add([]byte{}, int64(0), byte(0), []byte{})
	for seed := 1; seed <= 20; seed++ { // record sections for the framing modes
		l := gen.Example(seed)
		for i := range l.Batches {
			if raw := l.Batches[i].EncodedRecords(); raw != nil {
				mode := byte(8)
				if l.Batches[i].Format != lm.V2 {
					mode = 16
				}
				f.Add(raw, l.Batches[i].First(), mode|byte(len(l.Batches[i].Records))<<5, []byte{})
			}
		}
	}
	f.Fuzz(func(t *testing.T, in []byte, offset int64, flags byte, ab []byte) {
		fuzzOne(t, in, offset, flags, ab)
	})
}

func fuzzOne(t *testing.T, in []byte, offset int64, flags byte, ab []byte) {
	{
		if offset < 0 {
			offset = -(offset + 1)
		}
		// flag bits 3/4: treat the input as a record section and give it valid
		// framing, length and CRC (v2 batch / v1 gzip wrapper), so that the deep
		// parsers are reached with CRC validation on
		switch {
		case flags&8 != 0:
			n := int32(flags >> 5)
			b := lm.Batch{Format: lm.V2, Marker: lm.NoMarker, BaseOffset: offset, LastOffsetDelta: n, ProducerID: int64(flags >> 6), Transactional: flags&1 != 0,
				RawRecords: append([]byte{}, in...), CountOverride: &n}
			in = b.Encode()
		case flags&16 != 0:
			b := lm.Batch{Format: lm.V1, Codec: lm.Gzip, Marker: lm.NoMarker, Inner: lm.InnerRelative, Records: []lm.Record{{Offset: offset + int64(flags>>5)}},
				RawRecords: append([]byte{}, in...)}
			in = b.Encode()
		}
		c := call{
			in:         in,
			q:          lm.Query{Offset: offset, ReadCommitted: flags&1 != 0, KeepControl: flags&2 != 0},
			disableCRC: flags&4 != 0,
			aborted:    abortedFromBytes(ab),
		}
		// no ordering assertions here: the fuzzer is fond of offsets at the int64 limits
		hostileCheck(t, c, false)
	}
}

// TestFuzzSeedsAreValid keeps the fuzz seeds honest: every seed response is a valid
// one (it goes through the full model oracle in the quick tier as well).
func TestFuzzSeedsAreValid(t *testing.T) {
	gen := lm.GenLog(lm.GenConfig{MaxBatches: 5, MaxRecords: 4})
	for seed := 1; seed <= 80; seed++ {
		l := gen.Example(seed)
		in, _ := l.Encode()
		c := call{in: in, q: lm.Query{Offset: l.Batches[0].First()}, aborted: nil}
		want, next := l.Expect(c.q, len(l.Batches))
		o := run(c)
		ev.Case("seed|"+digest(in, c), len(l.Formats()) > 2 || l.Producers() >= 2)
		if o.panicked != nil || o.fp.Err != nil {
			report(t, "fuzz seed is not a valid response", l, c, &o, want, next)
		}
		if d := equalDiff(&o, want, next); d != "" {
			report(t, "fuzz seed: "+d, l, c, &o, want, next)
		}
	}
}
