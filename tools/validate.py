#!/usr/bin/env python3-vt
import json, sys, glob, jsonschema
m = json.load(open('/verif/MANIFEST.json'))
jsonschema.validate(m, json.load(open('/root/.vp/MANIFEST.schema.json')))
es = json.load(open('/root/.vp/EVIDENCE.schema.json'))
bad = 0
for c in m['checks']:
    p = '/verif/' + c['evidence_file']
    try:
        e = json.load(open(p))
        jsonschema.validate(e, es)
        if e['level'] != c['level_claimed']['category']:
            print('LEVEL MISMATCH', p); bad += 1
    except Exception as ex:
        print('INVALID', p, str(ex)[:300]); bad += 1
ids = [json.loads(l)['id'] for l in open('/verif/properties.jsonl')]
cl = {c['property_id'] for c in m['checks']}; na = {x['property_id'] for x in m.get('not_applicable', [])}
for i in ids:
    if (i in cl) == (i in na): print('COVERAGE PROBLEM', i); bad += 1
print('manifest valid; checks=%d na=%d bad=%d' % (len(cl), len(na), bad))
sys.exit(1 if bad else 0)
